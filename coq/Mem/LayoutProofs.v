(* Proofs about the flat memory block model of Mem/LayoutDefs.v:
   rounding, accessors inside / disjoint, block layout, trailer position, header round trip. *)
From Tbfmm Require Import Base.Prelude Mem.LayoutDefs.
From Coq Require Import ZifyBool FinFun.
Local Open Scope Z_scope.

Ltac Zify.zify_post_hook ::= Z.div_mod_to_equations.

(* ------------------------------------------------------------------ *)
(* rounding *)

Theorem leading_spec : forall a sz n, 0 < a -> 0 <= sz * n ->
  sz * n <= leading a sz n < sz * n + a /\ (a | leading a sz n).
Proof.
  intros a sz n Ha Hx. unfold leading.
  split.
  - remember (sz * n) as x eqn:Ex. clear Ex. lia.
  - apply Z.divide_factor_r.
Qed.

Lemma leading_ge : forall a sz n, 0 < a -> 0 <= sz * n -> sz * n <= leading a sz n.
Proof. intros a sz n Ha Hx. apply (leading_spec a sz n Ha Hx). Qed.

Lemma leading_nonneg : forall a sz n, 0 < a -> 0 <= sz * n -> 0 <= leading a sz n.
Proof. intros a sz n Ha Hx. pose proof (leading_ge a sz n Ha Hx). lia. Qed.

Lemma leading_div : forall a sz n, (a | leading a sz n).
Proof. intros. unfold leading. apply Z.divide_factor_r. Qed.

(* ------------------------------------------------------------------ *)
(* accessors *)

Definition valid_elem (k : bkind) (n i row : Z) : Prop :=
  match k with
  | Scalar _ => n = 1 /\ i = 0 /\ row = 0
  | Vector _ => 0 <= i < n /\ row = 0
  | MultiR _ rows | MultiV _ rows => 0 <= i < n /\ 0 <= row < rows
  end.

(* (i+1)*sz <= n*sz *)
Lemma succ_mul_le : forall i n sz, 0 <= sz -> i < n -> i * sz + sz <= n * sz.
Proof.
  intros i n sz Hsz Hin.
  replace (i * sz + sz) with ((i + 1) * sz) by ring.
  apply Z.mul_le_mono_nonneg_r; lia.
Qed.

(* generic 2-level bound: inner index j < m with stride s, outer index r < R with stride L >= m*s *)
Lemma two_level_in : forall r R L j m s,
  0 < s -> 0 <= j < m -> 0 <= r < R -> m * s <= L ->
  0 <= r * L + j * s /\ r * L + j * s + s <= R * L.
Proof.
  intros r R L j m s Hs Hj Hr HL.
  assert (H1 : j * s + s <= m * s) by (apply succ_mul_le; lia).
  assert (H2 : r * L + L <= R * L) by (apply succ_mul_le; lia).
  assert (H3 : 0 <= j * s) by (apply Z.mul_nonneg_nonneg; lia).
  assert (H4 : 0 <= L) by lia.
  assert (H5 : 0 <= r * L) by (apply Z.mul_nonneg_nonneg; lia).
  lia.
Qed.

Lemma two_level_lt : forall r r' L j j' m s,
  0 < s -> 0 <= j < m -> 0 <= j' < m -> 0 <= r -> r < r' -> m * s <= L ->
  r * L + j * s + s <= r' * L + j' * s.
Proof.
  intros r r' L j j' m s Hs Hj Hj' Hr Hrr HL.
  assert (H1 : j * s + s <= m * s) by (apply succ_mul_le; lia).
  assert (H2 : r * L + L <= r' * L) by (apply succ_mul_le; lia).
  assert (H3 : 0 <= j' * s) by (apply Z.mul_nonneg_nonneg; lia).
  lia.
Qed.

Lemma two_level_disjoint : forall r r' R L j j' m s,
  0 < s -> 0 <= j < m -> 0 <= j' < m -> 0 <= r < R -> 0 <= r' < R -> m * s <= L ->
  (r, j) <> (r', j') ->
  r * L + j * s + s <= r' * L + j' * s \/ r' * L + j' * s + s <= r * L + j * s.
Proof.
  intros r r' R L j j' m s Hs Hj Hj' Hr Hr' HL Hne.
  destruct (Z.lt_trichotomy r r') as [Hlt | [Heq | Hgt]].
  - left. apply two_level_lt with (m := m); lia.
  - subst r'.
    destruct (Z.lt_trichotomy j j') as [Hlt | [Heq | Hgt]].
    + left. assert (H1 : j * s + s <= j' * s) by (apply succ_mul_le; lia). lia.
    + subst j'. exfalso. apply Hne. reflexivity.
    + right. assert (H1 : j' * s + s <= j * s) by (apply succ_mul_le; lia). lia.
  - right. apply two_level_lt with (m := m); lia.
Qed.

Lemma mul_pos_nonneg : forall x y, 0 < x -> 0 <= y -> 0 <= x * y.
Proof. intros. apply Z.mul_nonneg_nonneg; lia. Qed.

Theorem accessor_in_block : forall a k off n i row,
  0 < a -> 0 < elem_size k -> valid_elem k n i row ->
  off <= elem_offset a k off n i row /\
  elem_offset a k off n i row + elem_size k <= off + block_bytes a k n.
Proof.
  intros a k off n i row Ha Hsz Hv.
  destruct k as [sz | sz | sz rows | sz rows];
    cbn [elem_offset elem_size block_bytes valid_elem] in *.
  - destruct Hv as (Hn & Hi & Hr). subst n.
    assert (H : sz * 1 <= leading a sz 1) by (apply leading_ge; lia).
    lia.
  - destruct Hv as (Hi & Hr).
    assert (H0 : 0 <= sz * n) by (apply mul_pos_nonneg; lia).
    assert (H : sz * n <= leading a sz n) by (apply leading_ge; lia).
    assert (H1 : i * sz + sz <= n * sz) by (apply succ_mul_le; lia).
    assert (H2 : 0 <= i * sz) by (apply Z.mul_nonneg_nonneg; lia).
    lia.
  - destruct Hv as (Hi & Hr).
    assert (H0 : 0 <= sz * n) by (apply mul_pos_nonneg; lia).
    assert (H : sz * n <= leading a sz n) by (apply leading_ge; lia).
    assert (HL : n * sz <= leading a sz n) by lia.
    pose proof (two_level_in row rows (leading a sz n) i n sz Hsz Hi Hr HL) as H2.
    lia.
  - destruct Hv as (Hi & Hr).
    assert (H0 : 0 <= sz * rows) by (apply mul_pos_nonneg; lia).
    assert (H : sz * rows <= leading a sz rows) by (apply leading_ge; lia).
    assert (HL : rows * sz <= leading a sz rows) by lia.
    pose proof (two_level_in i n (leading a sz rows) row rows sz Hsz Hr Hi HL) as H2.
    lia.
Qed.

Theorem accessors_disjoint : forall a k off n i row i' row',
  0 < a -> 0 < elem_size k -> valid_elem k n i row -> valid_elem k n i' row' ->
  (i, row) <> (i', row') ->
  elem_offset a k off n i row + elem_size k <= elem_offset a k off n i' row' \/
  elem_offset a k off n i' row' + elem_size k <= elem_offset a k off n i row.
Proof.
  intros a k off n i row i' row' Ha Hsz Hv Hv' Hne.
  destruct k as [sz | sz | sz rows | sz rows];
    cbn [elem_offset elem_size block_bytes valid_elem] in *.
  - destruct Hv as (Hn & Hi & Hr). destruct Hv' as (Hn' & Hi' & Hr').
    exfalso. apply Hne. subst. reflexivity.
  - destruct Hv as (Hi & Hr). destruct Hv' as (Hi' & Hr'). subst row row'.
    destruct (Z.lt_trichotomy i i') as [Hlt | [Heq | Hgt]].
    + left. assert (H1 : i * sz + sz <= i' * sz) by (apply succ_mul_le; lia). lia.
    + subst i'. exfalso. apply Hne. reflexivity.
    + right. assert (H1 : i' * sz + sz <= i * sz) by (apply succ_mul_le; lia). lia.
  - destruct Hv as (Hi & Hr). destruct Hv' as (Hi' & Hr').
    assert (H0 : 0 <= sz * n) by (apply mul_pos_nonneg; lia).
    assert (H : sz * n <= leading a sz n) by (apply leading_ge; lia).
    assert (HL : n * sz <= leading a sz n) by lia.
    assert (Hne2 : (row, i) <> (row', i')).
    { intro E. apply Hne. inversion E. reflexivity. }
    pose proof (two_level_disjoint row row' rows (leading a sz n) i i' n sz
                  Hsz Hi Hi' Hr Hr' HL Hne2) as H2.
    lia.
  - destruct Hv as (Hi & Hr). destruct Hv' as (Hi' & Hr').
    assert (H0 : 0 <= sz * rows) by (apply mul_pos_nonneg; lia).
    assert (H : sz * rows <= leading a sz rows) by (apply leading_ge; lia).
    assert (HL : rows * sz <= leading a sz rows) by lia.
    pose proof (two_level_disjoint i i' n (leading a sz rows) row row' rows sz
                  Hsz Hr Hr' Hi Hi' HL Hne) as H2.
    lia.
Qed.

(* ------------------------------------------------------------------ *)
(* blocks *)

Definition sizes_ok (ks : list bkind) (ns : list Z) : Prop :=
  length ns = length ks /\ Forall (fun n => 0 <= n) ns /\
  Forall (fun k => 0 < elem_size k /\ 0 < rows_of k) ks.

Lemma block_bytes_nonneg : forall a k n,
  0 < a -> 0 <= n -> 0 < elem_size k -> 0 < rows_of k -> 0 <= block_bytes a k n.
Proof.
  intros a k n Ha Hn Hsz Hr.
  destruct k as [sz | sz | sz rows | sz rows]; cbn [elem_size rows_of block_bytes] in *.
  - apply leading_nonneg; [lia | apply mul_pos_nonneg; lia].
  - apply leading_nonneg; [lia | apply mul_pos_nonneg; lia].
  - apply Z.mul_nonneg_nonneg; [lia |].
    apply leading_nonneg; [lia | apply mul_pos_nonneg; lia].
  - apply Z.mul_nonneg_nonneg; [lia |].
    apply leading_nonneg; [lia | apply mul_pos_nonneg; lia].
Qed.

Lemma block_bytes_div : forall a k n, (a | block_bytes a k n).
Proof.
  intros a k n. destruct k as [sz | sz | sz rows | sz rows]; cbn [block_bytes].
  - apply leading_div.
  - apply leading_div.
  - apply Z.divide_mul_r. apply leading_div.
  - apply Z.divide_mul_r. apply leading_div.
Qed.

Lemma sizes_ok_cons_inv : forall k kr n nr,
  sizes_ok (k :: kr) (n :: nr) ->
  0 <= n /\ 0 < elem_size k /\ 0 < rows_of k /\ sizes_ok kr nr.
Proof.
  intros k kr n nr (Hlen & Hns & Hks).
  inversion Hns as [| ? ? Hn Hnr]; subst.
  inversion Hks as [| ? ? Hk Hkr]; subst.
  destruct Hk as (Hsz & Hr).
  cbn [length] in Hlen.
  repeat split; try assumption. lia.
Qed.

Lemma sizes_ok_nil_l : forall ns, sizes_ok [] ns -> ns = [].
Proof.
  intros ns (Hlen & _). destruct ns; [reflexivity | discriminate Hlen].
Qed.

Lemma offsets_from_length : forall a ks ns off,
  length ns = length ks -> length (offsets_from a off ks ns) = length ks.
Proof.
  intros a ks. induction ks as [| k kr IH]; intros ns off Hlen.
  - reflexivity.
  - destruct ns as [| n nr]; [discriminate Hlen |].
    cbn [offsets_from length]. f_equal. apply IH. cbn [length] in Hlen. lia.
Qed.

(* every offset is >= the start, and its block ends before start + sum of all blocks *)
Lemma offsets_from_bounds : forall a ks ns off b,
  0 < a -> sizes_ok ks ns -> (b < length ks)%nat ->
  off <= nth b (offsets_from a off ks ns) 0 /\
  nth b (offsets_from a off ks ns) 0 + block_bytes a (nth b ks (Scalar 1)) (nth b ns 0)
    <= off + zsum (map2 (block_bytes a) ks ns).
Proof.
  intros a ks. induction ks as [| k kr IH]; intros ns off b Ha Hok Hb.
  - cbn [length] in Hb. lia.
  - destruct ns as [| n nr]; [destruct Hok as (Hlen & _); discriminate Hlen |].
    apply sizes_ok_cons_inv in Hok. destruct Hok as (Hn & Hsz & Hr & Hok).
    pose proof (block_bytes_nonneg a k n Ha Hn Hsz Hr) as Hbb.
    cbn [offsets_from map2 zsum].
    destruct b as [| b].
    + cbn [nth].
      assert (Hrest : 0 <= zsum (map2 (block_bytes a) kr nr)).
      { destruct kr as [| k2 kr2].
        - cbn. lia.
        - assert (Hb0 : (0 < length (k2 :: kr2))%nat) by (cbn [length]; lia).
          pose proof (IH nr 0 0%nat Ha Hok Hb0) as (H1 & H2).
          destruct nr as [| n2 nr2]; [destruct Hok as (Hlen & _); discriminate Hlen |].
          apply sizes_ok_cons_inv in Hok. destruct Hok as (Hn2 & Hsz2 & Hr2 & _).
          pose proof (block_bytes_nonneg a k2 n2 Ha Hn2 Hsz2 Hr2) as Hbb2.
          cbn [nth] in H2. lia. }
      lia.
    + cbn [nth]. cbn [length] in Hb.
      assert (Hb' : (b < length kr)%nat) by lia.
      pose proof (IH nr (off + block_bytes a k n) b Ha Hok Hb') as (H1 & H2).
      lia.
Qed.

Lemma offsets_from_layout : forall a ks ns off b b',
  0 < a -> sizes_ok ks ns -> (b < b' < length ks)%nat ->
  nth b (offsets_from a off ks ns) 0 + block_bytes a (nth b ks (Scalar 1)) (nth b ns 0)
    <= nth b' (offsets_from a off ks ns) 0.
Proof.
  intros a ks. induction ks as [| k kr IH]; intros ns off b b' Ha Hok Hb.
  - cbn [length] in Hb. lia.
  - destruct ns as [| n nr]; [destruct Hok as (Hlen & _); discriminate Hlen |].
    apply sizes_ok_cons_inv in Hok. destruct Hok as (Hn & Hsz & Hr & Hok).
    cbn [length] in Hb.
    destruct b' as [| b']; [lia |].
    cbn [offsets_from].
    destruct b as [| b].
    + cbn [nth].
      assert (Hb' : (b' < length kr)%nat) by lia.
      pose proof (offsets_from_bounds a kr nr (off + block_bytes a k n) b' Ha Hok Hb') as (H1 & _).
      exact H1.
    + cbn [nth]. apply IH; [assumption | assumption | lia].
Qed.

Theorem blocks_layout : forall a ks ns b b',
  0 < a -> sizes_ok ks ns -> (b < b' < length ks)%nat ->
  nth b (offsets a ks ns) 0 + block_bytes a (nth b ks (Scalar 1)) (nth b ns 0)
    <= nth b' (offsets a ks ns) 0.
Proof. intros. unfold offsets. apply offsets_from_layout; assumption. Qed.

Theorem blocks_before_trailer : forall a ks ns b,
  0 < a -> sizes_ok ks ns -> (b < length ks)%nat ->
  0 <= nth b (offsets a ks ns) 0 /\
  nth b (offsets a ks ns) 0 + block_bytes a (nth b ks (Scalar 1)) (nth b ns 0)
    <= blocks_end a ks ns.
Proof.
  intros a ks ns b Ha Hok Hb. unfold offsets, blocks_end.
  pose proof (offsets_from_bounds a ks ns 0 b Ha Hok Hb) as (H1 & H2).
  split; [exact H1 | lia].
Qed.

Lemma offsets_from_aligned : forall a ks ns off,
  (a | off) -> Forall (fun o => (a | o)) (offsets_from a off ks ns).
Proof.
  intros a ks. induction ks as [| k kr IH]; intros ns off Hoff.
  - cbn [offsets_from]. constructor.
  - destruct ns as [| n nr]; cbn [offsets_from]; [constructor |].
    constructor; [exact Hoff |].
    apply IH. apply Z.divide_add_r; [exact Hoff | apply block_bytes_div].
Qed.

Theorem offsets_aligned : forall a ks ns,
  0 < a -> sizes_ok ks ns -> Forall (fun o => (a | o)) (offsets a ks ns).
Proof.
  intros a ks ns _ _. unfold offsets. apply offsets_from_aligned. apply Z.divide_0_r.
Qed.

Lemma blocks_end_nonneg : forall a ks ns, 0 < a -> sizes_ok ks ns -> 0 <= blocks_end a ks ns.
Proof.
  intros a ks ns Ha Hok. destruct ks as [| k kr].
  - unfold blocks_end. cbn. lia.
  - assert (Hb : (0 < length (k :: kr))%nat) by (cbn [length]; lia).
    pose proof (blocks_before_trailer a (k :: kr) ns 0%nat Ha Hok Hb) as (H1 & H2).
    destruct ns as [| n nr]; [destruct Hok as (Hlen & _); discriminate Hlen |].
    apply sizes_ok_cons_inv in Hok. destruct Hok as (Hn & Hsz & Hr & _).
    pose proof (block_bytes_nonneg a k n Ha Hn Hsz Hr) as Hbb.
    cbn [nth] in H2. lia.
Qed.

(* ------------------------------------------------------------------ *)
(* reachable states, trailer position *)

Inductive reachable (a : Z) (ks : list bkind) : mblock -> Prop :=
| reach_empty : reachable a ks mb_empty
| reach_reset : forall st ns, reachable a ks st -> sizes_ok ks ns ->
    reachable a ks (reset a ks st ns).

Lemma nbk_nonneg : forall ks, 0 <= nbk ks.
Proof. intros. unfold nbk, zlen. lia. Qed.

Lemma reset_alloc_ge : forall a ks st ns, total a ks ns <= mb_alloc (reset a ks st ns).
Proof.
  intros a ks st ns. unfold reset. cbn [mb_alloc].
  destruct ((mb_alloc st <? total a ks ns) || negb (mb_owns st)) eqn:E.
  - lia.
  - apply orb_false_iff in E. destruct E as (E1 & _). lia.
Qed.

Theorem trailer_in_alloc : forall a ks st ns,
  0 < a -> reachable a ks st -> sizes_ok ks ns ->
  let st' := reset a ks st ns in
  total a ks ns <= mb_alloc st' /\
  blocks_end a ks ns <= offs_pos ks (mb_alloc st') 0 /\
  forall k, 0 <= k < nbk ks ->
    offs_pos ks (mb_alloc st') k + 8 <= items_pos ks (mb_alloc st') 0 /\
    items_pos ks (mb_alloc st') k + 8 <= mb_alloc st'.
Proof.
  intros a ks st ns Ha _ Hok st'.
  pose proof (reset_alloc_ge a ks st ns) as Hge. fold st' in Hge.
  pose proof (nbk_nonneg ks) as Hnb.
  unfold total in Hge. unfold offs_pos, items_pos.
  split; [unfold total; lia |].
  split; [lia |].
  intros k Hk. lia.
Qed.

(* ------------------------------------------------------------------ *)
(* reading back the trailer *)

Lemma read_word_skip : forall l rest p,
  ~ In p (map fst l) -> read_word (l ++ rest) p = read_word rest p.
Proof.
  induction l as [| (q, v) l IH]; intros rest p Hnin.
  - reflexivity.
  - cbn [app read_word]. cbn [map fst In] in Hnin.
    destruct (q =? p) eqn:E.
    + exfalso. apply Hnin. left. lia.
    + apply IH. intro Hin. apply Hnin. right. exact Hin.
Qed.

Lemma read_word_in : forall l rest p v,
  NoDup (map fst l) -> In (p, v) l -> read_word (l ++ rest) p = v.
Proof.
  induction l as [| (q, u) l IH]; intros rest p v Hnd Hin.
  - destruct Hin.
  - cbn [app read_word]. cbn [map fst] in Hnd.
    inversion Hnd as [| ? ? Hq Hnd']; subst.
    destruct Hin as [Heq | Hin].
    + inversion Heq; subst. rewrite Z.eqb_refl. reflexivity.
    + destruct (q =? p) eqn:E.
      * exfalso. apply Hq. assert (q = p) by lia. subst q.
        apply in_map_iff. exists (p, v). split; [reflexivity | exact Hin].
      * apply IH; assumption.
Qed.

(* the j-th pair written is what is read back at its position, whatever was there before *)
Lemma read_word_rev : forall w rest p v,
  NoDup (map fst w) -> In (p, v) w -> read_word (rev w ++ rest) p = v.
Proof.
  intros w rest p v Hnd Hin. apply read_word_in.
  - rewrite map_rev. apply NoDup_rev. exact Hnd.
  - apply in_rev in Hin. exact Hin.
Qed.

Lemma read_word_rev_skip : forall w rest p,
  ~ In p (map fst w) -> read_word (rev w ++ rest) p = read_word rest p.
Proof.
  intros w rest p Hnin. apply read_word_skip.
  rewrite map_rev. intro Hin. apply Hnin. apply in_rev. exact Hin.
Qed.

Lemma map2_combine : forall (A B C : Type) (f : A -> B -> C) l1 l2,
  map2 f l1 l2 = map (fun ab => f (fst ab) (snd ab)) (combine l1 l2).
Proof.
  intros A B C f l1. induction l1 as [| x r1 IH]; intros l2.
  - reflexivity.
  - destruct l2 as [| y r2]; [reflexivity |].
    cbn [map2 combine map fst snd]. f_equal. apply IH.
Qed.

Lemma map2_fst : forall (pos : Z -> Z) (l1 l2 : list Z),
  length l1 = length l2 ->
  map fst (map2 (fun k v => (pos k, v)) l1 l2) = map pos l1.
Proof.
  intros pos l1. induction l1 as [| x r1 IH]; intros l2 Hlen.
  - reflexivity.
  - destruct l2 as [| y r2]; [discriminate Hlen |].
    cbn [map2 map fst]. f_equal. apply IH. cbn [length] in Hlen. lia.
Qed.

Lemma map_combine_eq : forall (f : Z -> Z) (l vs : list Z),
  length l = length vs ->
  (forall k v, In (k, v) (combine l vs) -> f k = v) ->
  map f l = vs.
Proof.
  intros f l. induction l as [| x r IH]; intros vs Hlen H.
  - destruct vs; [reflexivity | discriminate Hlen].
  - destruct vs as [| y vs]; [discriminate Hlen |].
    cbn [map]. f_equal.
    + apply H. cbn [combine In]. left. reflexivity.
    + apply IH.
      * cbn [length] in Hlen. lia.
      * intros k v Hin. apply H. cbn [combine In]. right. exact Hin.
Qed.

Lemma zseq_length : forall n, 0 <= n -> length (zseq n) = Z.to_nat n.
Proof.
  intros n Hn. unfold zseq, zrange. rewrite map_length, seq_length. lia.
Qed.

Lemma zseq_in : forall n k, In k (zseq n) -> 0 <= k < n.
Proof.
  intros n k Hin. unfold zseq, zrange in Hin.
  apply in_map_iff in Hin. destruct Hin as (j & Hj & Hin).
  apply in_seq in Hin. lia.
Qed.

Lemma zseq_NoDup : forall n, NoDup (zseq n).
Proof.
  intros n. unfold zseq, zrange. apply Injective_map_NoDup.
  - intros x y Hxy. lia.
  - apply seq_NoDup.
Qed.

Lemma items_pos_inj : forall ks alloc, Injective (items_pos ks alloc).
Proof. intros ks alloc x y Hxy. unfold items_pos in Hxy. lia. Qed.

Lemma offs_pos_inj : forall ks alloc, Injective (offs_pos ks alloc).
Proof. intros ks alloc x y Hxy. unfold offs_pos in Hxy. lia. Qed.

Lemma zseq_nbk_length : forall ks, length (zseq (nbk ks)) = length ks.
Proof.
  intros ks. rewrite zseq_length by apply nbk_nonneg. unfold nbk, zlen. lia.
Qed.

Section Roundtrip.
Variables (ks : list bkind) (alloc : Z) (vi vo : list Z) (kept : list (Z * Z)).
Hypothesis Hvi : length vi = length ks.
Hypothesis Hvo : length vo = length ks.

Let idxs := zseq (nbk ks).
Let w_items := map2 (fun k n => (items_pos ks alloc k, n)) idxs vi.
Let w_offs := map2 (fun k o => (offs_pos ks alloc k, o)) idxs vo.
Let words := rev w_offs ++ rev w_items ++ kept.

Lemma rt_items_fst : map fst w_items = map (items_pos ks alloc) idxs.
Proof.
  unfold w_items. apply map2_fst. unfold idxs. rewrite zseq_nbk_length. lia.
Qed.

Lemma rt_offs_fst : map fst w_offs = map (offs_pos ks alloc) idxs.
Proof.
  unfold w_offs. apply map2_fst. unfold idxs. rewrite zseq_nbk_length. lia.
Qed.

Lemma rt_read_items : forall k v, In (k, v) (combine idxs vi) ->
  read_word words (items_pos ks alloc k) = v.
Proof.
  intros k v Hin. unfold words.
  assert (Hk : 0 <= k < nbk ks).
  { apply zseq_in. apply in_combine_l in Hin. exact Hin. }
  rewrite read_word_rev_skip.
  - apply read_word_rev.
    + rewrite rt_items_fst. apply Injective_map_NoDup.
      * apply items_pos_inj.
      * apply zseq_NoDup.
    + unfold w_items. rewrite map2_combine.
      apply in_map_iff. exists (k, v). split; [reflexivity | exact Hin].
  - rewrite rt_offs_fst. intro Hc. apply in_map_iff in Hc.
    destruct Hc as (j & Hj & Hjin). apply zseq_in in Hjin.
    unfold offs_pos, items_pos in Hj. lia.
Qed.

Lemma rt_read_offs : forall k v, In (k, v) (combine idxs vo) ->
  read_word words (offs_pos ks alloc k) = v.
Proof.
  intros k v Hin. unfold words.
  apply read_word_rev.
  - rewrite rt_offs_fst. apply Injective_map_NoDup.
    + apply offs_pos_inj.
    + apply zseq_NoDup.
  - unfold w_offs. rewrite map2_combine.
    apply in_map_iff. exists (k, v). split; [reflexivity | exact Hin].
Qed.

Lemma rt_header :
  (map (fun k => read_word words (items_pos ks alloc k)) idxs,
   map (fun k => read_word words (offs_pos ks alloc k)) idxs) = (vi, vo).
Proof.
  f_equal.
  - apply map_combine_eq.
    + unfold idxs. rewrite zseq_nbk_length. lia.
    + apply rt_read_items.
  - apply map_combine_eq.
    + unfold idxs. rewrite zseq_nbk_length. lia.
    + apply rt_read_offs.
Qed.

End Roundtrip.

Theorem view_roundtrip : forall a ks st ns,
  0 < a -> reachable a ks st -> sizes_ok ks ns ->
  init_header ks (reset a ks st ns) = (ns, offsets a ks ns).
Proof.
  intros a ks st ns _ _ Hok. destruct Hok as (Hlen & _).
  unfold init_header, reset. cbn [mb_alloc mb_words].
  apply rt_header.
  - exact Hlen.
  - unfold offsets. apply offsets_from_length. exact Hlen.
Qed.

Print Assumptions leading_spec.
Print Assumptions accessor_in_block.
Print Assumptions accessors_disjoint.
Print Assumptions blocks_layout.
Print Assumptions blocks_before_trailer.
Print Assumptions offsets_aligned.
Print Assumptions trailer_in_alloc.
Print Assumptions view_roundtrip.
