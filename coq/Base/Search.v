(* Model of TbfUtils::lower_bound_indexes (src/utils/tbfutils.hpp:179-197):
   binary search on an index range with a user predicate. *)
From Tbfmm Require Import Base.Prelude.
Local Open Scope Z_scope.

(* One iteration of the C++ while loop per unit of fuel:
     while (count > 0) { it = first; step = count/2; it += step;
        if (comp(it,value)) { first = ++it; count -= step+1; } else count = step; } *)
Fixpoint lower_bound_loop (fuel : nat) (comp : Z -> bool) (first count : Z) : option Z :=
  if count >? 0 then
    match fuel with
    | O => None
    | S f =>
        let step := count / 2 in
        let it := first + step in
        if comp it then lower_bound_loop f comp (it + 1) (count - (step + 1))
        else lower_bound_loop f comp first step
    end
  else Some first.

Definition lb_fuel (count : Z) : nat := S (Z.to_nat (Z.log2 count)).

Definition lower_bound_opt (first last : Z) (comp : Z -> bool) : option Z :=
  lower_bound_loop (lb_fuel (last - first)) comp first (last - first).

(* Total version used by the rest of the model; the default is never taken
   (theorem lower_bound_total in Base/SearchProofs.v). *)
Definition lower_bound_indexes (first last : Z) (comp : Z -> bool) : Z :=
  match lower_bound_opt first last comp with Some r => r | None => first end.
