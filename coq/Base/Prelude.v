(* Common imports and small executable helpers shared by every model file.
   Definitions only; the lemmas about them are in Base/ListAux.v. *)
From Coq Require Export List ZArith Bool Lia.
Export ListNotations.
Local Open Scope Z_scope.

(* [zrange lo hi] = lo, lo+1, ..., hi  (empty when hi < lo). *)
Definition zrange (lo hi : Z) : list Z :=
  map (fun k => lo + Z.of_nat k) (seq 0 (Z.to_nat (hi - lo + 1))).

(* [zseq n] = 0 .. n-1 *)
Definition zseq (n : Z) : list Z := zrange 0 (n - 1).

Definition zlen {A} (l : list A) : Z := Z.of_nat (length l).

(* nth with Z index and default *)
Definition znth {A} (l : list A) (i : Z) (dflt : A) : A :=
  if i <? 0 then dflt else nth (Z.to_nat i) l dflt.

Fixpoint last_or {A} (l : list A) (dflt : A) : A :=
  match l with
  | [] => dflt
  | [x] => x
  | _ :: r => last_or r dflt
  end.

Definition hd_or {A} (l : list A) (dflt : A) : A :=
  match l with [] => dflt | x :: _ => x end.

Fixpoint map2 {A B C} (f : A -> B -> C) (l1 : list A) (l2 : list B) : list C :=
  match l1, l2 with
  | a :: r1, b :: r2 => f a b :: map2 f r1 r2
  | _, _ => []
  end.

Definition zmem (x : Z) (l : list Z) : bool := existsb (Z.eqb x) l.

Fixpoint zsum (l : list Z) : Z :=
  match l with [] => 0 | x :: r => x + zsum r end.

(* remove consecutive duplicates *)
Fixpoint dedup_adj (l : list Z) : list Z :=
  match l with
  | [] => []
  | x :: r =>
      match r with
      | [] => [x]
      | y :: _ => if x =? y then dedup_adj r else x :: dedup_adj r
      end
  end.

Fixpoint list_eqb {A} (eqb : A -> A -> bool) (l1 l2 : list A) : bool :=
  match l1, l2 with
  | [], [] => true
  | a :: r1, b :: r2 => eqb a b && list_eqb eqb r1 r2
  | _, _ => false
  end.

(* strictly increasing *)
Fixpoint strict_incb (l : list Z) : bool :=
  match l with
  | [] => true
  | x :: r => match r with [] => true | y :: _ => (x <? y) && strict_incb r end
  end.
