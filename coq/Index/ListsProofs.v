(* Proofs about the position codes and the interaction / neighbour list builders:
   enc/dec are inverse on the cube, the upper-half filter is the lexicographic-positive test,
   and [nlist_cell]/[ilist_cell] compute exactly [nlist_spec]/[ilist_spec] (as multisets). *)
From Tbfmm Require Import Base.Prelude Index.MortonDefs Index.ListsDefs Index.ListsSpec Index.MortonProofs Index.MortonBits.
From Coq Require Import ZifyBool Zify Permutation.
Local Open Scope Z_scope.
Ltac Zify.zify_post_hook ::= Z.div_mod_to_equations.

(* ------------------------------------------------------------------ *)
(* Position codes                                                      *)
(* ------------------------------------------------------------------ *)
Section Codes.
Variables b off : Z.
Hypothesis Hb : 0 < b.
Let okd (x : Z) : Prop := 0 <= x + off < b.

Lemma enc_base_snoc o x : enc_base b off (o ++ [x]) = enc_base b off o * b + (x + off).
Proof. unfold enc_base. rewrite fold_left_app. reflexivity. Qed.

Lemma enc_base_range o : Forall okd o -> 0 <= enc_base b off o < b ^ Z.of_nat (length o).
Proof.
  induction o as [|x o IH] using rev_ind; intros HF.
  - cbn. lia.
  - apply Forall_app in HF. destruct HF as [HF Hx].
    inversion Hx as [|? ? Hx' _]; subst. unfold okd in Hx'.
    specialize (IH HF). rewrite enc_base_snoc, app_length. cbn [length].
    replace (Z.of_nat (length o + 1)) with (Z.succ (Z.of_nat (length o))) by lia.
    rewrite Z.pow_succ_r by lia. nia.
Qed.

Lemma dec_rev_enc o : Forall okd o ->
  dec_base_rev (length o) b off (enc_base b off o) = rev o.
Proof.
  induction o as [|x o IH] using rev_ind; intros HF.
  - reflexivity.
  - apply Forall_app in HF. destruct HF as [HF Hx].
    inversion Hx as [|? ? Hx' _]; subst. unfold okd in Hx'.
    pose proof (enc_base_range o HF) as Hr.
    rewrite app_length. cbn [length]. rewrite Nat.add_1_r. cbn [dec_base_rev].
    rewrite enc_base_snoc, rev_app_distr. cbn [rev app].
    rewrite Z.rem_mod_nonneg, Z.quot_div_nonneg by nia.
    assert (E1 : (enc_base b off o * b + (x + off)) mod b = x + off).
    { rewrite Z.add_comm, Z.mod_add by lia. apply Z.mod_small. lia. }
    assert (E2 : (enc_base b off o * b + (x + off)) / b = enc_base b off o).
    { rewrite Z.add_comm, Z.div_add by lia. rewrite Z.div_small by lia. lia. }
    rewrite E1, E2, IH by exact HF. f_equal. lia.
Qed.

Lemma enc_dec_rev : forall n c, 0 <= c < b ^ Z.of_nat n ->
  enc_base b off (rev (dec_base_rev n b off c)) = c /\
  length (dec_base_rev n b off c) = n /\
  Forall okd (dec_base_rev n b off c).
Proof.
  induction n as [|n IH]; intros c Hc.
  - cbn in *. repeat split; [lia|constructor].
  - replace (Z.of_nat (S n)) with (Z.succ (Z.of_nat n)) in Hc by lia.
    rewrite Z.pow_succ_r in Hc by lia.
    cbn [dec_base_rev rev length].
    rewrite Z.rem_mod_nonneg, Z.quot_div_nonneg by lia.
    assert (Hq : 0 <= c / b < b ^ Z.of_nat n).
    { split; [apply Z.div_pos; lia|apply Z.div_lt_upper_bound; lia]. }
    destruct (IH (c / b) Hq) as (E & Hlen & HF).
    pose proof (Z.mod_pos_bound c b Hb) as Hm.
    rewrite enc_base_snoc, E. repeat split.
    + pose proof (Z.div_mod c b). lia.
    + rewrite Hlen. reflexivity.
    + constructor; [unfold okd; lia|exact HF].
Qed.
End Codes.

Lemma Forall_impl' {A} (P Q : A -> Prop) l : (forall x, P x -> Q x) -> Forall P l -> Forall Q l.
Proof. intros H HF. eapply Forall_impl; eauto. Qed.

Lemma dec_enc_gen b off d o : 0 < b -> length o = d -> Forall (fun x => 0 <= x + off < b) o ->
  dec_base d b off (enc_base b off o) = o.
Proof.
  intros Hb Hlen HF. unfold dec_base. rewrite <- Hlen.
  rewrite dec_rev_enc by assumption. apply rev_involutive.
Qed.

Lemma enc_dec_gen b off d c : 0 < b -> 0 <= c < b ^ dz d ->
  enc_base b off (dec_base d b off c) = c /\ length (dec_base d b off c) = d /\
  Forall (fun x => 0 <= x + off < b) (dec_base d b off c).
Proof.
  intros Hb Hc. unfold dec_base.
  destruct (enc_dec_rev b off Hb d c Hc) as (E & Hlen & HF).
  repeat split; [exact E|rewrite rev_length; exact Hlen|].
  apply Forall_rev. exact HF.
Qed.

Theorem dec7_enc7 : forall d o, length o = d -> Forall (fun x => -3 <= x <= 3) o -> dec7 d (enc7 o) = o.
Proof.
  intros d o Hlen HF. apply dec_enc_gen; [lia|exact Hlen|].
  eapply Forall_impl'; [|exact HF]. cbv beta. intros; lia.
Qed.

Theorem enc7_dec7 : forall d c, 0 <= c < 7 ^ dz d ->
  enc7 (dec7 d c) = c /\ length (dec7 d c) = d /\ Forall (fun x => -3 <= x <= 3) (dec7 d c).
Proof.
  intros d c Hc. destruct (enc_dec_gen 7 3 d c ltac:(lia) Hc) as (E & Hlen & HF).
  repeat split; [exact E|exact Hlen|].
  eapply Forall_impl'; [|exact HF]. cbv beta. intros; lia.
Qed.

Theorem dec3_enc3 : forall d o, length o = d -> Forall (fun x => -1 <= x <= 1) o -> dec3 d (enc3 o) = o.
Proof.
  intros d o Hlen HF. apply dec_enc_gen; [lia|exact Hlen|].
  eapply Forall_impl'; [|exact HF]. cbv beta. intros; lia.
Qed.

Theorem enc3_dec3 : forall d c, 0 <= c < 3 ^ dz d ->
  enc3 (dec3 d c) = c /\ length (dec3 d c) = d /\ Forall (fun x => -1 <= x <= 1) (dec3 d c).
Proof.
  intros d c Hc. destruct (enc_dec_gen 3 1 d c ltac:(lia) Hc) as (E & Hlen & HF).
  repeat split; [exact E|exact Hlen|].
  eapply Forall_impl'; [|exact HF]. cbv beta. intros; lia.
Qed.

(* ------------------------------------------------------------------ *)
(* Upper half = lexicographically positive                             *)
(* ------------------------------------------------------------------ *)
Fixpoint lexposb (o : list Z) : bool :=
  match o with [] => false | x :: r => if x =? 0 then lexposb r else 0 <? x end.

Lemma fold_enc3_acc : forall o acc,
  fold_left (fun a r => a * 3 + (r + 1)) o acc = acc * 3 ^ Z.of_nat (length o) + enc3 o.
Proof.
  unfold enc3, enc_base.
  induction o as [|x o IH]; intros acc.
  - cbn. lia.
  - cbn [fold_left length]. rewrite (IH (acc * 3 + (x + 1))), (IH (0 * 3 + (x + 1))).
    replace (Z.of_nat (S (length o))) with (Z.succ (Z.of_nat (length o))) by lia.
    rewrite Z.pow_succ_r by lia. ring.
Qed.

Lemma enc3_cons x o : enc3 (x :: o) = (x + 1) * 3 ^ Z.of_nat (length o) + enc3 o.
Proof.
  unfold enc3 at 1. unfold enc_base. cbn [fold_left]. rewrite fold_enc3_acc. ring.
Qed.

Lemma upper_half_len : forall o, Forall (fun x => -1 <= x <= 1) o ->
  (Z.quot (3 ^ Z.of_nat (length o)) 2 <? enc3 o) = lexposb o.
Proof.
  induction o as [|x o IH]; intros HF.
  - reflexivity.
  - inversion HF as [|? ? Hx HF']; subst. specialize (IH HF').
    assert (Hr : 0 <= enc3 o < 3 ^ Z.of_nat (length o)).
    { apply (enc_base_range 3 1); [lia|]. eapply Forall_impl'; [|exact HF']. cbv beta. intros; lia. }
    rewrite enc3_cons. cbn [length lexposb].
    replace (Z.of_nat (S (length o))) with (Z.succ (Z.of_nat (length o))) by lia.
    rewrite Z.pow_succ_r by lia.
    set (P := 3 ^ Z.of_nat (length o)) in *.
    assert (HP : 0 < P) by (apply Z.pow_pos_nonneg; lia).
    rewrite Z.quot_div_nonneg in * by lia.
    assert (Hx3 : x = -1 \/ x = 0 \/ x = 1) by lia.
    destruct Hx3 as [->|[->| ->]].
    + replace (-1 =? 0) with false by reflexivity. replace (0 <? -1) with false by reflexivity.
      apply Z.ltb_ge. lia.
    + replace (0 =? 0) with true by reflexivity. rewrite <- IH.
      apply eq_true_iff_eq. rewrite !Z.ltb_lt. lia.
    + replace (1 =? 0) with false by reflexivity. replace (0 <? 1) with true by reflexivity.
      apply Z.ltb_lt. lia.
Qed.

Theorem upper_half : forall d o, length o = d -> Forall (fun x => -1 <= x <= 1) o ->
  lex_positive d o = lexposb o.
Proof.
  intros d o Hlen HF. unfold lex_positive, pow3d, dz. rewrite <- Hlen.
  apply upper_half_len. exact HF.
Qed.

Theorem upper_half_antisym : forall o, Forall (fun x => -1 <= x <= 1) o ->
  existsb (fun x => negb (x =? 0)) o = true -> lexposb (map Z.opp o) = negb (lexposb o).
Proof.
  induction o as [|x o IH]; intros HF Hex.
  - discriminate.
  - inversion HF as [|? ? Hx HF']; subst. cbn [existsb map lexposb] in *.
    assert (Hx3 : x = -1 \/ x = 0 \/ x = 1) by lia.
    destruct Hx3 as [->|[->| ->]]; cbn in *; [reflexivity|apply IH; assumption|reflexivity].
Qed.

(* ------------------------------------------------------------------ *)
(* Generic list lemmas                                                 *)
(* ------------------------------------------------------------------ *)
Lemma nth_map_lt {A B} (f : A -> B) l j da db :
  (j < length l)%nat -> nth j (map f l) db = f (nth j l da).
Proof.
  intros H. rewrite (nth_indep _ db (f da)) by (rewrite map_length; exact H). apply map_nth.
Qed.

Lemma forallb_nth (f : Z -> bool) l :
  forallb f l = true <-> forall j, (j < length l)%nat -> f (nth j l 0) = true.
Proof.
  rewrite forallb_forall. split.
  - intros H j Hj. apply H. apply nth_In. exact Hj.
  - intros H x Hx. destruct (In_nth l x 0 Hx) as (j & Hj & <-). apply H; exact Hj.
Qed.

Lemma Forall_nthZ (P : Z -> Prop) l :
  Forall P l <-> forall j, (j < length l)%nat -> P (nth j l 0).
Proof.
  rewrite Forall_forall. split.
  - intros H j Hj. apply H. apply nth_In. exact Hj.
  - intros H x Hx. destruct (In_nth l x 0 Hx) as (j & Hj & <-). apply H; exact Hj.
Qed.

Lemma nth_repeat_lt {A} (a dflt : A) n j : (j < n)%nat -> nth j (repeat a n) dflt = a.
Proof.
  revert j. induction n as [|n IH]; intros j Hj; [lia|].
  destruct j as [|j]; cbn [repeat nth]; [reflexivity|]. apply IH. lia.
Qed.

Lemma In_zrange x lo hi : In x (zrange lo hi) <-> lo <= x <= hi.
Proof.
  unfold zrange. rewrite in_map_iff. split.
  - intros (k & <- & Hk). apply in_seq in Hk. lia.
  - intros H. exists (Z.to_nat (x - lo)). split; [lia|apply in_seq; lia].
Qed.

Lemma In_zseq x n : In x (zseq n) <-> 0 <= x < n.
Proof. unfold zseq. rewrite In_zrange. lia. Qed.

Lemma NoDup_zrange lo hi : NoDup (zrange lo hi).
Proof.
  unfold zrange. apply FinFun.Injective_map_NoDup; [|apply seq_NoDup].
  intros a b H. lia.
Qed.

Lemma NoDup_app_intro {A} (l1 l2 : list A) :
  NoDup l1 -> NoDup l2 -> (forall x, In x l1 -> In x l2 -> False) -> NoDup (l1 ++ l2).
Proof.
  induction l1 as [|a l1 IH]; intros H1 H2 Hd; cbn [app]; [exact H2|].
  inversion H1 as [|? ? Hna H1']; subst. constructor.
  - rewrite in_app_iff. intros [Hi|Hi]; [contradiction|].
    apply (Hd a); [left; reflexivity|exact Hi].
  - apply IH; [exact H1'|exact H2|]. intros x Hx1 Hx2. apply (Hd x); [right; exact Hx1|exact Hx2].
Qed.

Lemma NoDup_flat_map_g {A B} (f : A -> list B) (g : B -> A) L :
  NoDup L -> (forall a, In a L -> NoDup (f a)) ->
  (forall a y, In a L -> In y (f a) -> g y = a) -> NoDup (flat_map f L).
Proof.
  induction L as [|a L IH]; intros HL Hf Hg; cbn [flat_map]; [constructor|].
  inversion HL as [|? ? Hna HL']; subst.
  apply NoDup_app_intro.
  - apply Hf. left; reflexivity.
  - apply IH; [exact HL'| |].
    + intros x Hx. apply Hf. right; exact Hx.
    + intros x y Hx Hy. apply Hg; [right; exact Hx|exact Hy].
  - intros y Hy1 Hy2. apply in_flat_map in Hy2. destruct Hy2 as (x & Hx & Hy2).
    assert (E1 : g y = a) by (apply Hg; [left; reflexivity|exact Hy1]).
    assert (E2 : g y = x) by (apply Hg; [right; exact Hx|exact Hy2]).
    apply Hna. rewrite <- E1, E2. exact Hx.
Qed.

Lemma flat_map_ext_in {A B} (f g : A -> list B) L :
  (forall a, In a L -> f a = g a) -> flat_map f L = flat_map g L.
Proof.
  induction L as [|a L IH]; intros H; cbn [flat_map]; [reflexivity|].
  rewrite H by (left; reflexivity). rewrite IH; [reflexivity|].
  intros x Hx. apply H. right; exact Hx.
Qed.

Lemma flat_map_map {A B C} (f : B -> list C) (g : A -> B) L :
  flat_map f (map g L) = flat_map (fun a => f (g a)) L.
Proof.
  induction L as [|a L IH]; cbn [map flat_map]; [reflexivity|]. rewrite IH. reflexivity.
Qed.

Lemma flat_map_flat_map {A B C} (f : B -> list C) (g : A -> list B) L :
  flat_map f (flat_map g L) = flat_map (fun a => flat_map f (g a)) L.
Proof.
  induction L as [|a L IH]; cbn [flat_map]; [reflexivity|].
  rewrite flat_map_app, IH. reflexivity.
Qed.

(* Two enumerations that differ only by elements with empty contribution. *)
Lemma perm_flat_map_sub {A B} (f : A -> list B) (g : B -> A) L1 L2 :
  NoDup L1 -> NoDup L2 -> incl L1 L2 ->
  (forall a, In a L2 -> NoDup (f a)) ->
  (forall a y, In a L2 -> In y (f a) -> g y = a) ->
  (forall a, In a L2 -> f a <> [] -> In a L1) ->
  Permutation (flat_map f L1) (flat_map f L2).
Proof.
  intros N1 N2 Hinc Hf Hg Hback.
  apply NoDup_Permutation.
  - apply NoDup_flat_map_g with (g := g); [exact N1| |].
    + intros a Ha. apply Hf. apply Hinc. exact Ha.
    + intros a y Ha Hy. apply Hg; [apply Hinc; exact Ha|exact Hy].
  - apply NoDup_flat_map_g with (g := g); assumption.
  - intros y. rewrite !in_flat_map. split.
    + intros (a & Ha & Hy). exists a. split; [apply Hinc; exact Ha|exact Hy].
    + intros (a & Ha & Hy). exists a. split; [|exact Hy].
      apply Hback; [exact Ha|]. intros E. rewrite E in Hy. destruct Hy.
Qed.

Lemma In_odometer : forall lims v,
  In v (odometer lims) <->
  length v = length lims /\
  forall j, (j < length lims)%nat ->
    fst (nth j lims (0, 0)) <= nth j v 0 <= snd (nth j lims (0, 0)).
Proof.
  induction lims as [|[lo hi] r IH]; intros v.
  - cbn [odometer In length]. split.
    + intros [<-|[]]. split; [reflexivity|]. intros j Hj. lia.
    + intros [Hlen _]. left. destruct v; [reflexivity|discriminate].
  - cbn [odometer]. rewrite in_flat_map. split.
    + intros (x & Hx & Hv). apply in_map_iff in Hv. destruct Hv as (w & <- & Hw).
      apply In_zrange in Hx. apply IH in Hw. destruct Hw as [Hlen Hb].
      cbn [length]. split; [lia|]. intros j Hj.
      destruct j as [|j]; cbn [nth fst snd]; [exact Hx|]. apply Hb. lia.
    + intros [Hlen Hb]. destruct v as [|x w]; [discriminate|].
      exists x. split.
      * apply In_zrange. apply (Hb 0%nat). cbn [length]. lia.
      * apply in_map. apply IH. cbn [length] in *. split; [lia|].
        intros j Hj. apply (Hb (S j)). lia.
Qed.

Lemma NoDup_odometer lims : NoDup (odometer lims).
Proof.
  induction lims as [|[lo hi] r IH]; cbn [odometer].
  - constructor; [intros []|constructor].
  - apply NoDup_flat_map_g with (g := fun v => hd 0 v).
    + apply NoDup_zrange.
    + intros a _. apply FinFun.Injective_map_NoDup; [|exact IH].
      intros x y H. injection H. auto.
    + intros a y _ Hy. apply in_map_iff in Hy. destruct Hy as (w & <- & _). reflexivity.
Qed.

Lemma In_cube d lo hi o :
  In o (cube d lo hi) <-> length o = d /\ forall j, (j < d)%nat -> lo <= nth j o 0 <= hi.
Proof.
  unfold cube. rewrite In_odometer, repeat_length. split.
  - intros [Hlen Hb]. split; [exact Hlen|]. intros j Hj. specialize (Hb j Hj).
    rewrite nth_repeat_lt in Hb by exact Hj. exact Hb.
  - intros [Hlen Hb]. split; [exact Hlen|]. intros j Hj.
    rewrite nth_repeat_lt by exact Hj. apply Hb. exact Hj.
Qed.

Lemma cube_Forall d lo hi o : In o (cube d lo hi) -> length o = d /\ Forall (fun x => lo <= x <= hi) o.
Proof.
  intros H. apply In_cube in H. destruct H as [Hlen Hb]. split; [exact Hlen|].
  apply Forall_nthZ. rewrite Hlen. exact Hb.
Qed.

Lemma map2_add_sub a b : length a = length b -> map2 Z.sub (map2 Z.add a b) a = b.
Proof.
  revert b. induction a as [|x a IH]; intros [|y b] H; cbn [map2 length] in *; try lia; [reflexivity|].
  rewrite IH by lia. f_equal. lia.
Qed.

(* coordinates of a valid index *)
Lemma unbox_coords d l idx : (0 < d)%nat -> 0 <= l -> 0 <= idx < 2 ^ (l * dz d) ->
  length (unbox d idx) = d /\ forall j, (j < d)%nat -> 0 <= nth j (unbox d idx) 0 < 2 ^ l.
Proof.
  intros Hd Hl Hidx. pose proof (unbox_length d idx) as Hlen.
  pose proof (unbox_nonneg d idx) as Hnn.
  split; [exact Hlen|].
  assert (HF : Forall (fun x => x < 2 ^ l) (unbox d idx)).
  { apply (box_range d _ l Hd Hl Hlen Hnn). rewrite box_unbox by (try assumption; lia). lia. }
  rewrite Forall_nthZ in Hnn, HF. rewrite Hlen in Hnn, HF.
  intros j Hj. split; [apply Hnn|apply HF]; exact Hj.
Qed.

(* ------------------------------------------------------------------ *)
(* Neighbour list                                                      *)
(* ------------------------------------------------------------------ *)
Definition sbn (d : nat) (per : bool) (l : Z) (upper : bool) (c o : list Z) : list (Z * Z) :=
  let u := map2 Z.add c o in
  if forallb (Z.eqb 0) o then []
  else if upper && negb (lex_positive d o) then []
  else if per then [(box d (wrap l u), enc3 o)]
  else if in_grid l u then [(box d u, enc3 o)] else [].

Lemma sbn_shape d per l upper c o :
  sbn d per l upper c o = [] \/ exists s, sbn d per l upper c o = [(s, enc3 o)].
Proof.
  unfold sbn. destruct (forallb (Z.eqb 0) o); [left; reflexivity|].
  destruct (upper && negb (lex_positive d o)); [left; reflexivity|].
  destruct per; [right; eexists; reflexivity|].
  destruct (in_grid l (map2 Z.add c o)); [right; eexists; reflexivity|left; reflexivity].
Qed.

Lemma lims_of_length per pos lim : length (lims_of per pos lim) = length pos.
Proof. unfold lims_of. destruct per; apply map_length. Qed.

Lemma lims_of_nth per pos lim j : (j < length pos)%nat ->
  nth j (lims_of per pos lim) (0, 0) =
  if per then (-1, 1)
  else ((if nth j pos 0 =? 0 then 0 else -1), (if nth j pos 0 + 1 =? lim then 0 else 1)).
Proof.
  intros Hj. unfold lims_of. destruct per; rewrite (nth_map_lt _ pos j 0) by exact Hj; reflexivity.
Qed.

Section NL.
Variables (d : nat) (per : bool) (l : Z) (upper : bool) (idx : Z).
Hypothesis Hd : (0 < d)%nat.
Hypothesis Hl : 0 <= l.
Hypothesis Hidx : 0 <= idx < 2 ^ (l * dz d).
Let L := 2 ^ l.
Let cpos := unbox d idx.

Let cpos_len : length cpos = d.
Proof. apply unbox_length. Qed.
Let cpos_rng : forall j, (j < d)%nat -> 0 <= nth j cpos 0 < L.
Proof. apply (unbox_coords d l idx Hd Hl Hidx). Qed.
Let L_pos : 0 < L.
Proof. apply Z.pow_pos_nonneg; lia. Qed.

Lemma in_grid_nth u : length u = d ->
  (in_grid l u = true <-> forall j, (j < d)%nat -> 0 <= nth j u 0 < L).
Proof.
  intros Hlen. unfold in_grid. rewrite forallb_nth, Hlen. fold L.
  split; intros H j Hj; specialize (H j Hj); lia.
Qed.

Lemma In_odo_n delta :
  In delta (odometer (lims_of per cpos L)) <->
  In delta (cube d (-1) 1) /\ (per = true \/ in_grid l (map2 Z.add cpos delta) = true).
Proof.
  rewrite In_odometer, In_cube, lims_of_length, cpos_len. split.
  - intros [Hlen Hb].
    assert (Hb' : forall j, (j < d)%nat ->
      -1 <= nth j delta 0 <= 1 /\ (per = false -> 0 <= nth j cpos 0 + nth j delta 0 < L)).
    { intros j Hj. specialize (Hb j Hj). rewrite lims_of_nth in Hb by lia.
      pose proof (cpos_rng j Hj). destruct per; cbn [fst snd] in Hb; [split; [lia|discriminate]|].
      destruct (Z.eqb_spec (nth j cpos 0) 0), (Z.eqb_spec (nth j cpos 0 + 1) L); lia. }
    split; [split; [exact Hlen|intros j Hj; apply Hb'; exact Hj]|].
    destruct per; [left; reflexivity|right].
    apply in_grid_nth; [rewrite map2_length; lia|].
    intros j Hj. rewrite (map2_nth Z.add 0 0 0) by lia. apply Hb'; [exact Hj|reflexivity].
  - intros [[Hlen Hb] Hg]. split; [exact Hlen|]. intros j Hj.
    rewrite lims_of_nth by lia. specialize (Hb j Hj). pose proof (cpos_rng j Hj).
    destruct per; cbn [fst snd]; [lia|].
    destruct Hg as [Hg|Hg]; [discriminate|].
    rewrite in_grid_nth in Hg by (rewrite map2_length; lia).
    specialize (Hg j Hj). rewrite (map2_nth Z.add 0 0 0) in Hg by lia.
    destruct (Z.eqb_spec (nth j cpos 0) 0), (Z.eqb_spec (nth j cpos 0 + 1) L); lia.
Qed.

Let bodyn (delta : list Z) : list (Z * Z) :=
  if forallb (Z.eqb 0) delta then [] else
  let other0 := map2 Z.add cpos delta in
  let code := enc3 (map2 Z.sub other0 cpos) in
  let other := if per then map (fun o => Z.rem (o + L) L) other0 else other0 in
  let oidx := box d other in
  if negb upper || (Z.quot (pow3d d) 2 <? code) then [(oidx, code)] else [].

Lemma bodyn_eq delta : In delta (odometer (lims_of per cpos L)) ->
  bodyn delta = sbn d per l upper cpos delta.
Proof.
  intros Hin. apply In_odo_n in Hin. destruct Hin as [Hc Hg].
  apply In_cube in Hc. destruct Hc as [Hlen Hb].
  unfold bodyn, sbn, lex_positive. cbv zeta.
  rewrite map2_add_sub by lia.
  destruct (forallb (Z.eqb 0) delta); [reflexivity|].
  assert (Hw : per = true -> map (fun o => Z.rem (o + L) L) (map2 Z.add cpos delta) = wrap l (map2 Z.add cpos delta)).
  { intros _. unfold wrap. fold L. apply map_ext_in. intros x Hx.
    destruct (In_nth _ x 0 Hx) as (j & Hj & <-). rewrite map2_length in Hj by lia.
    rewrite (map2_nth Z.add 0 0 0) by lia.
    assert (Hjd : (j < d)%nat) by lia.
    pose proof (cpos_rng j Hjd). specialize (Hb j Hjd).
    rewrite Z.rem_mod_nonneg by lia.
    replace (nth j cpos 0 + nth j delta 0 + L) with (nth j cpos 0 + nth j delta 0 + 1 * L) by ring.
    apply Z.mod_add. lia. }
  destruct upper; cbn [negb orb andb];
    [destruct (Z.quot (pow3d d) 2 <? enc3 delta); cbn [negb]|].
  all: try reflexivity.
  all: destruct per; [rewrite Hw by reflexivity; reflexivity|].
  all: destruct Hg as [Hg|Hg]; [discriminate|rewrite Hg; reflexivity].
Qed.

Lemma sbn_back o : In o (cube d (-1) 1) -> sbn d per l upper cpos o <> [] ->
  In o (odometer (lims_of per cpos L)).
Proof.
  intros Hc Hne. apply In_odo_n. split; [exact Hc|].
  destruct per; [left; reflexivity|right].
  destruct (in_grid l (map2 Z.add cpos o)) eqn:E; [reflexivity|].
  exfalso. apply Hne. unfold sbn. rewrite E.
  destruct (forallb (Z.eqb 0) o); [reflexivity|].
  destruct (upper && negb (lex_positive d o)); reflexivity.
Qed.

Lemma nlist_exact_sec :
  Permutation (nlist_cell d per l upper idx) (nlist_spec d per l upper idx).
Proof.
  change (nlist_spec d per l upper idx) with (flat_map (sbn d per l upper cpos) (cube d (-1) 1)).
  assert (E : nlist_cell d per l upper idx = flat_map bodyn (odometer (lims_of per cpos L))).
  { unfold nlist_cell, bodyn. rewrite Z.shiftl_1_l. reflexivity. }
  rewrite E. rewrite (flat_map_ext_in bodyn (sbn d per l upper cpos)) by (exact bodyn_eq).
  apply perm_flat_map_sub with (g := fun y => dec3 d (snd y)).
  - apply NoDup_odometer.
  - apply NoDup_odometer.
  - intros o Ho. apply In_odo_n in Ho. apply Ho.
  - intros o _. destruct (sbn_shape d per l upper cpos o) as [->|[s ->]].
    + constructor.
    + constructor; [intros []|constructor].
  - intros o y Ho Hy. destruct (sbn_shape d per l upper cpos o) as [E'|[s E']]; rewrite E' in Hy.
    + destruct Hy.
    + destruct Hy as [<-|[]]. cbn [snd]. apply cube_Forall in Ho. destruct Ho as [Hlen HF].
      apply dec3_enc3; assumption.
  - exact sbn_back.
Qed.
End NL.

Theorem nlist_exact : forall d per l upper idx, (0 < d)%nat -> 0 <= l -> 0 <= idx < 2 ^ (l * dz d) ->
  Permutation (nlist_cell d per l upper idx) (nlist_spec d per l upper idx).
Proof. intros. apply nlist_exact_sec; assumption. Qed.

(* ------------------------------------------------------------------ *)
(* Interaction list: per-coordinate facts                              *)
(* ------------------------------------------------------------------ *)
Definition wsf (per : bool) (LP L op : Z) : Z * Z :=
  if per then wrap_parent LP L op else (op, 0).
Definition limj (per : bool) (LP p : Z) : Z * Z :=
  if per then (-1, 1) else ((if p =? 0 then 0 else -1), (if p + 1 =? LP then 0 else 1)).
Definition relj (per : bool) (LP L cj dj bj : Z) : Z :=
  2 * fst (wsf per LP L (cj / 2 + dj)) + bj + snd (wsf per LP L (cj / 2 + dj)) - cj.

Ltac mod_shift L :=
  match goal with
  | |- ?a mod L = ?b =>
      first [ replace a with (b + (-1) * L) by lia
            | replace a with (b + 1 * L) by lia
            | replace a with (b + 0 * L) by lia ];
      rewrite Z.mod_add by lia; apply Z.mod_small; lia
  end.

Lemma scal_fwd per LP L cj dj bj : 0 < LP -> L = 2 * LP -> 0 <= cj < L ->
  fst (limj per LP (cj / 2)) <= dj <= snd (limj per LP (cj / 2)) -> 0 <= bj <= 1 ->
  0 <= fst (wsf per LP L (cj / 2 + dj)) /\
  -3 <= relj per LP L cj dj bj <= 3 /\
  (cj + relj per LP L cj dj bj) / 2 = cj / 2 + dj /\
  (cj + relj per LP L cj dj bj) mod 2 = bj /\
  (if per then (cj + relj per LP L cj dj bj) mod L = 2 * fst (wsf per LP L (cj / 2 + dj)) + bj
   else 0 <= cj + relj per LP L cj dj bj < L /\
        cj + relj per LP L cj dj bj = 2 * fst (wsf per LP L (cj / 2 + dj)) + bj).
Proof.
  intros HLP HL Hc Hd Hb. unfold relj, wsf, limj, wrap_parent in *.
  destruct per; cbn [fst snd] in *.
  - destruct (Z.ltb_spec (cj / 2 + dj) 0) as [H1|H1];
      [|destruct (Z.leb_spec LP (cj / 2 + dj)) as [H2|H2]]; cbn [fst snd].
    + repeat split; try lia. mod_shift L.
    + repeat split; try lia. mod_shift L.
    + repeat split; try lia. mod_shift L.
  - destruct (Z.eqb_spec (cj / 2) 0), (Z.eqb_spec (cj / 2 + 1) LP); repeat split; lia.
Qed.

Lemma scal_bwd per LP L cj oj : 0 < LP -> L = 2 * LP -> 0 <= cj < L ->
  -3 <= oj <= 3 -> Z.abs ((cj + oj) / 2 - cj / 2) <= 1 ->
  (per = false -> 0 <= cj + oj < L) ->
  fst (limj per LP (cj / 2)) <= (cj + oj) / 2 - cj / 2 <= snd (limj per LP (cj / 2)) /\
  0 <= (cj + oj) mod 2 <= 1 /\
  relj per LP L cj ((cj + oj) / 2 - cj / 2) ((cj + oj) mod 2) = oj.
Proof.
  intros HLP HL Hc Ho Ha Hg.
  assert (Hlim : fst (limj per LP (cj / 2)) <= (cj + oj) / 2 - cj / 2 <= snd (limj per LP (cj / 2))).
  { unfold limj. destruct per; cbn [fst snd]; [lia|]. specialize (Hg eq_refl).
    destruct (Z.eqb_spec (cj / 2) 0), (Z.eqb_spec (cj / 2 + 1) LP); lia. }
  assert (Hb : 0 <= (cj + oj) mod 2 <= 1) by lia.
  split; [exact Hlim|]. split; [exact Hb|].
  destruct (scal_fwd per LP L cj _ _ HLP HL Hc Hlim Hb) as (_ & _ & E1 & E2 & _).
  set (r := relj per LP L cj ((cj + oj) / 2 - cj / 2) ((cj + oj) mod 2)) in *.
  clearbody r. lia.
Qed.

(* ------------------------------------------------------------------ *)
(* Interaction list: list level                                        *)
(* ------------------------------------------------------------------ *)
Definition sbi (d : nat) (per : bool) (l : Z) (c o : list Z) : list (Z * Z) :=
  let u := map2 Z.add c o in
  if too_close o then []
  else if negb (parents_adjacent c u) then []
  else if per then [(box d (wrap l u), enc7 o)]
  else if in_grid l u then [(box d u, enc7 o)] else [].

Lemma sbi_shape d per l c o :
  sbi d per l c o = [] \/ exists s, sbi d per l c o = [(s, enc7 o)].
Proof.
  unfold sbi. destruct (too_close o); [left; reflexivity|].
  destruct (negb (parents_adjacent c (map2 Z.add c o))); [left; reflexivity|].
  destruct per; [right; eexists; reflexivity|].
  destruct (in_grid l (map2 Z.add c o)); [right; eexists; reflexivity|left; reflexivity].
Qed.

Lemma sbi_nonempty d per l c o : sbi d per l c o <> [] ->
  parents_adjacent c (map2 Z.add c o) = true /\
  (per = true \/ in_grid l (map2 Z.add c o) = true).
Proof.
  unfold sbi. intros H.
  destruct (too_close o); [contradiction|].
  destruct (parents_adjacent c (map2 Z.add c o)); cbn [negb] in H; [|contradiction].
  split; [reflexivity|].
  destruct per; [left; reflexivity|right].
  destruct (in_grid l (map2 Z.add c o)); [reflexivity|contradiction].
Qed.

Section IL.
Variables (d : nat) (per : bool) (l : Z) (idx : Z).
Hypothesis Hd : (0 < d)%nat.
Hypothesis Hl : 1 <= l.
Hypothesis Hidx : 0 <= idx < 2 ^ (l * dz d).
Let L := 2 ^ l.
Let LP := 2 ^ (l - 1).
Let cpos := unbox d idx.
Let ppos := map (fun x => x / 2) cpos.
Let zs := zseq (2 ^ dz d).
Let odo := odometer (lims_of per ppos LP).

Let LP_pos : 0 < LP.
Proof. apply Z.pow_pos_nonneg; lia. Qed.
Let L_LP : L = 2 * LP.
Proof.
  unfold L, LP. replace l with (Z.succ (l - 1)) at 1 by lia.
  rewrite Z.pow_succ_r by lia. reflexivity.
Qed.
Let cpos_len : length cpos = d.
Proof. apply unbox_length. Qed.
Let cpos_rng : forall j, (j < d)%nat -> 0 <= nth j cpos 0 < L.
Proof. apply (unbox_coords d l idx Hd); [lia|exact Hidx]. Qed.
Let ppos_len : length ppos = d.
Proof. unfold ppos. rewrite map_length. exact cpos_len. Qed.
Let ppos_nth : forall j, (j < d)%nat -> nth j ppos 0 = nth j cpos 0 / 2.
Proof. intros j Hj. unfold ppos. apply (nth_map_lt (fun x => x / 2) cpos j 0 0). lia. Qed.

Let WS (delta : list Z) : list (Z * Z) := map (wsf per LP L) (map2 Z.add ppos delta).
Let SRC (delta : list Z) (c : Z) : Z := child d (box d (map fst (WS delta))) c.
Let REL (delta : list Z) (c : Z) : list Z :=
  map2 Z.sub (map2 Z.add (unbox d (SRC delta c)) (map snd (WS delta))) cpos.
Let GD (o : list Z) : list Z := map2 Z.sub (map (fun x => x / 2) (map2 Z.add cpos o)) ppos.
Let GC (o : list Z) : Z := box d (map (fun x => x mod 2) (map2 Z.add cpos o)).

Lemma In_odo_i delta : In delta odo <->
  length delta = d /\
  forall j, (j < d)%nat ->
    fst (limj per LP (nth j cpos 0 / 2)) <= nth j delta 0 <= snd (limj per LP (nth j cpos 0 / 2)).
Proof.
  unfold odo. rewrite In_odometer, lims_of_length, ppos_len.
  split; intros [Hlen Hb]; (split; [exact Hlen|]); intros j Hj; specialize (Hb j Hj).
  - rewrite lims_of_nth, ppos_nth in Hb by lia. exact Hb.
  - rewrite lims_of_nth, ppos_nth by lia. exact Hb.
Qed.

Lemma In_zs_bits c : In c zs ->
  0 <= c < 2 ^ dz d /\ length (unbox d c) = d /\
  forall j, (j < d)%nat -> 0 <= nth j (unbox d c) 0 <= 1.
Proof.
  intros Hc. apply In_zseq in Hc. split; [exact Hc|].
  assert (Hc1 : 0 <= c < 2 ^ (1 * dz d)) by (rewrite Z.mul_1_l; exact Hc).
  destruct (unbox_coords d 1 c Hd ltac:(lia) Hc1) as [Hlen Hb].
  split; [exact Hlen|]. intros j Hj. specialize (Hb j Hj). change (2 ^ 1) with 2 in Hb. lia.
Qed.

(* structure of one produced element *)
Lemma cell_struct delta c : In delta odo -> In c zs ->
  0 <= SRC delta c /\
  unbox d (SRC delta c) = map2 (fun x b => 2 * x + b) (map fst (WS delta)) (unbox d c) /\
  length (REL delta c) = d /\
  forall j, (j < d)%nat ->
    nth j (map fst (WS delta)) 0 = fst (wsf per LP L (nth j cpos 0 / 2 + nth j delta 0)) /\
    nth j (REL delta c) 0 = relj per LP L (nth j cpos 0) (nth j delta 0) (nth j (unbox d c) 0).
Proof.
  intros Hdl Hc. apply In_odo_i in Hdl. destruct Hdl as [Hlen Hlim].
  destruct (In_zs_bits c Hc) as (Hcr & Hblen & Hbit).
  assert (Hop_len : length (map2 Z.add ppos delta) = d) by (rewrite map2_length; lia).
  assert (Hws_len : length (WS delta) = d) by (unfold WS; rewrite map_length; exact Hop_len).
  assert (Hws_nth : forall j, (j < d)%nat ->
            nth j (WS delta) (0, 0) = wsf per LP L (nth j cpos 0 / 2 + nth j delta 0)).
  { intros j Hj. unfold WS. rewrite (nth_map_lt _ _ j 0) by lia.
    rewrite (map2_nth Z.add 0 0 0) by lia. rewrite ppos_nth by exact Hj. reflexivity. }
  assert (Hw_len : length (map fst (WS delta)) = d) by (rewrite map_length; exact Hws_len).
  assert (Hw_nth : forall j, (j < d)%nat ->
            nth j (map fst (WS delta)) 0 = fst (wsf per LP L (nth j cpos 0 / 2 + nth j delta 0))).
  { intros j Hj. rewrite (nth_map_lt fst _ j (0, 0)) by lia. rewrite Hws_nth by exact Hj. reflexivity. }
  assert (Hs_nth : forall j, (j < d)%nat ->
            nth j (map snd (WS delta)) 0 = snd (wsf per LP L (nth j cpos 0 / 2 + nth j delta 0))).
  { intros j Hj. rewrite (nth_map_lt snd _ j (0, 0)) by lia. rewrite Hws_nth by exact Hj. reflexivity. }
  assert (Hw_nn : Forall (fun x => 0 <= x) (map fst (WS delta))).
  { apply Forall_nthZ. rewrite Hw_len. intros j Hj. rewrite Hw_nth by exact Hj.
    apply (scal_fwd per LP L (nth j cpos 0) (nth j delta 0) 0 LP_pos L_LP (cpos_rng j Hj) (Hlim j Hj)). lia. }
  assert (Hbox_nn : 0 <= box d (map fst (WS delta))) by (apply box_nonneg; assumption).
  assert (Hsrc_nn : 0 <= SRC delta c).
  { unfold SRC. rewrite child_mul. pose proof (pow_dz_pos d). nia. }
  assert (Hub : unbox d (SRC delta c) = map2 (fun x b => 2 * x + b) (map fst (WS delta)) (unbox d c)).
  { unfold SRC. rewrite child_coords by assumption. rewrite unbox_box by assumption. reflexivity. }
  split; [exact Hsrc_nn|]. split; [exact Hub|].
  assert (Hu_len : length (unbox d (SRC delta c)) = d) by apply unbox_length.
  assert (Hus_len : length (map2 Z.add (unbox d (SRC delta c)) (map snd (WS delta))) = d).
  { rewrite map2_length; rewrite ?map_length; lia. }
  split; [unfold REL; rewrite map2_length; lia|].
  intros j Hj. split; [apply Hw_nth; exact Hj|].
  unfold REL. rewrite (map2_nth Z.sub 0 0 0) by lia.
  rewrite (map2_nth Z.add 0 0 0) by (rewrite ?map_length; lia).
  rewrite Hub, (map2_nth (fun x b => 2 * x + b) 0 0 0) by lia.
  rewrite Hw_nth, Hs_nth by exact Hj. unfold relj. reflexivity.
Qed.

Let body (delta : list Z) (c : Z) : list (Z * Z) :=
  if too_close (REL delta c) then [] else [(SRC delta c, enc7 (REL delta c))].

(* facts shared by the three directions *)
Lemma cell_scal delta c j : In delta odo -> In c zs -> (j < d)%nat ->
  let cj := nth j cpos 0 in let dj := nth j delta 0 in let bj := nth j (unbox d c) 0 in
  let r := nth j (REL delta c) 0 in let w := nth j (map fst (WS delta)) 0 in
  -3 <= r <= 3 /\ (cj + r) / 2 = cj / 2 + dj /\ (cj + r) mod 2 = bj /\
  -1 <= dj <= 1 /\
  (if per then (cj + r) mod L = 2 * w + bj else 0 <= cj + r < L /\ cj + r = 2 * w + bj).
Proof.
  intros Hdl Hc Hj. cbv zeta.
  destruct (cell_struct delta c Hdl Hc) as (_ & _ & _ & Hn). destruct (Hn j Hj) as [Ew Er].
  apply In_odo_i in Hdl. destruct Hdl as [Hlen Hlim].
  destruct (In_zs_bits c Hc) as (_ & _ & Hbit).
  destruct (scal_fwd per LP L (nth j cpos 0) (nth j delta 0) (nth j (unbox d c) 0)
              LP_pos L_LP (cpos_rng j Hj) (Hlim j Hj) (Hbit j Hj)) as (_ & H2 & H3 & H4 & H5).
  rewrite Ew, Er. repeat split; try lia; try exact H5.
  - specialize (Hlim j Hj). unfold limj in Hlim. destruct per; cbn [fst snd] in Hlim; [lia|].
    destruct (Z.eqb_spec (nth j cpos 0 / 2) 0); lia.
  - specialize (Hlim j Hj). unfold limj in Hlim. destruct per; cbn [fst snd] in Hlim; [lia|].
    destruct (Z.eqb_spec (nth j cpos 0 / 2 + 1) LP); lia.
Qed.

Lemma cell_fwd delta c : In delta odo -> In c zs ->
  In (REL delta c) (cube d (-3) 3) /\ body delta c = sbi d per l cpos (REL delta c).
Proof.
  intros Hdl Hc.
  destruct (cell_struct delta c Hdl Hc) as (Hsrc & Hub & Hrlen & _).
  pose proof (fun j Hj => cell_scal delta c j Hdl Hc Hj) as Hs. cbv zeta in Hs.
  destruct (In_zs_bits c Hc) as (_ & Hblen & _).
  assert (Hdlen : length delta = d) by (apply In_odo_i in Hdl; apply Hdl).
  assert (Hwlen : length (map fst (WS delta)) = d).
  { unfold WS. rewrite !map_length, map2_length; lia. }
  set (r := REL delta c) in *.
  assert (Hulen : length (map2 Z.add cpos r) = d) by (rewrite map2_length; lia).
  split.
  - apply In_cube. split; [exact Hrlen|]. intros j Hj. apply (Hs j Hj).
  - unfold body, sbi. fold r. destruct (too_close r); [reflexivity|].
    assert (Hpa : parents_adjacent cpos (map2 Z.add cpos r) = true).
    { unfold parents_adjacent. apply forallb_nth.
      rewrite map2_length by (rewrite !map_length; lia). rewrite map_length, Hulen.
      intros j Hj. rewrite (map2_nth Z.sub 0 0 0) by (rewrite !map_length; lia).
      rewrite (nth_map_lt (fun x => x / 2) _ j 0 0) by lia.
      rewrite (nth_map_lt (fun x => x / 2) _ j 0 0) by lia.
      rewrite (map2_nth Z.add 0 0 0) by lia.
      destruct (Hs j Hj) as (_ & E & _ & Hdj & _). rewrite E. lia. }
    rewrite Hpa. cbn [negb].
    assert (Hbx : box d (unbox d (SRC delta c)) = SRC delta c) by (apply box_unbox; assumption).
    destruct per.
    + f_equal. f_equal. rewrite <- Hbx, Hub. f_equal.
      apply nth_ext with (d := 0) (d' := 0).
      * unfold wrap. rewrite map_length, map2_length; lia.
      * intros j Hj. rewrite map2_length in Hj by lia.
        assert (Hjd : (j < d)%nat) by lia.
        rewrite (map2_nth (fun x b => 2 * x + b) 0 0 0) by lia.
        unfold wrap. rewrite (nth_map_lt (fun x => x mod 2 ^ l) _ j 0 0) by lia.
        rewrite (map2_nth Z.add 0 0 0) by lia.
        destruct (Hs j Hjd) as (_ & _ & _ & _ & E). fold L. symmetry. exact E.
    + assert (Hu : map2 Z.add cpos r = map2 (fun x b => 2 * x + b) (map fst (WS delta)) (unbox d c)).
      { apply nth_ext with (d := 0) (d' := 0).
        - rewrite !map2_length; lia.
        - intros j Hj. rewrite Hulen in Hj.
          rewrite (map2_nth (fun x b => 2 * x + b) 0 0 0) by lia.
          rewrite (map2_nth Z.add 0 0 0) by lia.
          destruct (Hs j Hj) as (_ & _ & _ & _ & _ & E). exact E. }
      assert (Hg : in_grid l (map2 Z.add cpos r) = true).
      { unfold in_grid. apply forallb_nth. rewrite Hulen. intros j Hj.
        rewrite (map2_nth Z.add 0 0 0) by lia.
        destruct (Hs j Hj) as (_ & _ & _ & _ & E & _). fold L. lia. }
      rewrite Hg. rewrite Hu, <- Hub, Hbx. reflexivity.
Qed.

Lemma cell_inj delta c : In delta odo -> In c zs ->
  GD (REL delta c) = delta /\ GC (REL delta c) = c.
Proof.
  intros Hdl Hc.
  destruct (cell_struct delta c Hdl Hc) as (_ & _ & Hrlen & _).
  pose proof (fun j Hj => cell_scal delta c j Hdl Hc Hj) as Hs. cbv zeta in Hs.
  destruct (In_zs_bits c Hc) as (Hcr & Hblen & _).
  assert (Hdlen : length delta = d) by (apply In_odo_i in Hdl; apply Hdl).
  set (r := REL delta c) in *.
  assert (Hulen : length (map2 Z.add cpos r) = d) by (rewrite map2_length; lia).
  split.
  - unfold GD. apply nth_ext with (d := 0) (d' := 0).
    + rewrite map2_length; rewrite ?map_length; lia.
    + intros j Hj. rewrite map2_length in Hj by (rewrite ?map_length; lia).
      rewrite map_length, Hulen in Hj.
      rewrite (map2_nth Z.sub 0 0 0) by (rewrite ?map_length; lia).
      rewrite (nth_map_lt (fun x => x / 2) _ j 0 0) by lia.
      rewrite (map2_nth Z.add 0 0 0) by lia. rewrite ppos_nth by exact Hj.
      destruct (Hs j Hj) as (_ & E & _). lia.
  - unfold GC.
    replace (map (fun x => x mod 2) (map2 Z.add cpos r)) with (unbox d c).
    + apply box_unbox; [exact Hd|lia].
    + apply nth_ext with (d := 0) (d' := 0).
      * rewrite map_length; lia.
      * intros j Hj. rewrite Hblen in Hj.
        rewrite (nth_map_lt (fun x => x mod 2) _ j 0 0) by lia.
        rewrite (map2_nth Z.add 0 0 0) by lia.
        destruct (Hs j Hj) as (_ & _ & E & _). symmetry. exact E.
Qed.

Lemma cell_bwd o : In o (cube d (-3) 3) -> sbi d per l cpos o <> [] ->
  In (GD o) odo /\ In (GC o) zs /\ REL (GD o) (GC o) = o.
Proof.
  intros Ho Hne. apply In_cube in Ho. destruct Ho as [Holen Hob].
  apply sbi_nonempty in Hne. destruct Hne as [Hpa Hg].
  assert (Hulen : length (map2 Z.add cpos o) = d) by (rewrite map2_length; lia).
  assert (Hpa' : forall j, (j < d)%nat ->
            Z.abs ((nth j cpos 0 + nth j o 0) / 2 - nth j cpos 0 / 2) <= 1).
  { unfold parents_adjacent in Hpa. rewrite forallb_nth in Hpa.
    rewrite map2_length in Hpa by (rewrite !map_length; lia). rewrite map_length, Hulen in Hpa.
    intros j Hj. specialize (Hpa j Hj).
    rewrite (map2_nth Z.sub 0 0 0) in Hpa by (rewrite !map_length; lia).
    rewrite (nth_map_lt (fun x => x / 2) _ j 0 0) in Hpa by lia.
    rewrite (nth_map_lt (fun x => x / 2) _ j 0 0) in Hpa by lia.
    rewrite (map2_nth Z.add 0 0 0) in Hpa by lia. lia. }
  assert (Hg' : forall j, (j < d)%nat -> per = false -> 0 <= nth j cpos 0 + nth j o 0 < L).
  { intros j Hj Hp. destruct Hg as [Hg|Hg]; [congruence|].
    unfold in_grid in Hg. rewrite forallb_nth, Hulen in Hg. specialize (Hg j Hj).
    rewrite (map2_nth Z.add 0 0 0) in Hg by lia. fold L in Hg. lia. }
  pose proof (fun j Hj => scal_bwd per LP L (nth j cpos 0) (nth j o 0) LP_pos L_LP
                            (cpos_rng j Hj) (Hob j Hj) (Hpa' j Hj) (Hg' j Hj)) as Hs.
  assert (Hgd_len : length (GD o) = d).
  { unfold GD. rewrite map2_length; rewrite ?map_length; lia. }
  assert (Hgd_nth : forall j, (j < d)%nat ->
            nth j (GD o) 0 = (nth j cpos 0 + nth j o 0) / 2 - nth j cpos 0 / 2).
  { intros j Hj. unfold GD. rewrite (map2_nth Z.sub 0 0 0) by (rewrite ?map_length; lia).
    rewrite (nth_map_lt (fun x => x / 2) _ j 0 0) by lia.
    rewrite (map2_nth Z.add 0 0 0) by lia. rewrite ppos_nth by exact Hj. reflexivity. }
  set (bl := map (fun x => x mod 2) (map2 Z.add cpos o)).
  assert (Hbl_len : length bl = d) by (unfold bl; rewrite map_length; exact Hulen).
  assert (Hbl_nth : forall j, (j < d)%nat -> nth j bl 0 = (nth j cpos 0 + nth j o 0) mod 2).
  { intros j Hj. unfold bl. rewrite (nth_map_lt (fun x => x mod 2) _ j 0 0) by lia.
    rewrite (map2_nth Z.add 0 0 0) by lia. reflexivity. }
  assert (Hbl_nn : Forall (fun x => 0 <= x) bl).
  { apply Forall_nthZ. rewrite Hbl_len. intros j Hj. rewrite Hbl_nth by exact Hj. apply (Hs j Hj). }
  assert (Hbl_lt : Forall (fun x => x < 2 ^ 1) bl).
  { apply Forall_nthZ. rewrite Hbl_len. intros j Hj. rewrite Hbl_nth by exact Hj.
    change (2 ^ 1) with 2. pose proof (Hs j Hj). lia. }
  assert (Hgc : In (GC o) zs).
  { unfold zs. apply In_zseq. unfold GC. fold bl. split; [apply box_nonneg; assumption|].
    rewrite <- (Z.mul_1_l (dz d)). apply (box_range d bl 1 Hd); try assumption. lia. }
  assert (Hgd : In (GD o) odo).
  { apply In_odo_i. split; [exact Hgd_len|]. intros j Hj. rewrite Hgd_nth by exact Hj. apply (Hs j Hj). }
  split; [exact Hgd|]. split; [exact Hgc|].
  destruct (cell_struct (GD o) (GC o) Hgd Hgc) as (_ & _ & Hrlen & Hn).
  assert (Hub : unbox d (GC o) = bl) by (unfold GC; fold bl; apply unbox_box; assumption).
  apply nth_ext with (d := 0) (d' := 0); [lia|].
  intros j Hj. rewrite Hrlen in Hj. destruct (Hn j Hj) as [_ Er].
  rewrite Er, Hub, Hgd_nth, Hbl_nth by exact Hj. apply (Hs j Hj).
Qed.

Let RL : list (list Z) := flat_map (fun delta => map (REL delta) zs) odo.

Lemma cell_as_RL :
  flat_map (fun delta => flat_map (body delta) zs) odo = flat_map (sbi d per l cpos) RL.
Proof.
  unfold RL. rewrite flat_map_flat_map. apply flat_map_ext_in. intros delta Hdl.
  rewrite flat_map_map. apply flat_map_ext_in. intros c Hc.
  apply (cell_fwd delta c Hdl Hc).
Qed.

Lemma NoDup_RL : NoDup RL.
Proof.
  unfold RL. apply NoDup_flat_map_g with (g := GD).
  - apply NoDup_odometer.
  - intros delta Hdl. apply (NoDup_map_inv GC). rewrite map_map.
    rewrite (map_ext_in _ (fun c => c)); [rewrite map_id; apply NoDup_zrange|].
    intros c Hc. apply (cell_inj delta c Hdl Hc).
  - intros delta y Hdl Hy. apply in_map_iff in Hy. destruct Hy as (c & <- & Hc).
    apply (cell_inj delta c Hdl Hc).
Qed.

Lemma ilist_flat_perm :
  Permutation (flat_map (fun delta => flat_map (body delta) zs) odo)
              (flat_map (sbi d per l cpos) (cube d (-3) 3)).
Proof.
  rewrite cell_as_RL.
  apply perm_flat_map_sub with (g := fun y => dec7 d (snd y)).
  - exact NoDup_RL.
  - apply NoDup_odometer.
  - intros o Ho. unfold RL in Ho. apply in_flat_map in Ho. destruct Ho as (delta & Hdl & Ho).
    apply in_map_iff in Ho. destruct Ho as (c & <- & Hc). apply (cell_fwd delta c Hdl Hc).
  - intros o _. destruct (sbi_shape d per l cpos o) as [->|[s ->]].
    + constructor.
    + constructor; [intros []|constructor].
  - intros o y Ho Hy. destruct (sbi_shape d per l cpos o) as [E'|[s E']]; rewrite E' in Hy.
    + destruct Hy.
    + destruct Hy as [<-|[]]. cbn [snd]. apply cube_Forall in Ho. destruct Ho as [Hlen HF].
      apply dec7_enc7; assumption.
  - intros o Ho Hne. destruct (cell_bwd o Ho Hne) as (Hgd & Hgc & E).
    unfold RL. apply in_flat_map. exists (GD o). split; [exact Hgd|].
    apply in_map_iff. exists (GC o). split; [exact E|exact Hgc].
Qed.

Lemma ilist_cell_unfold : ilist_active per l = true ->
  ilist_cell d per l idx = flat_map (fun delta => flat_map (body delta) zs) odo.
Proof.
  intros Hact. unfold ilist_cell. rewrite Hact. cbn [negb]. cbv zeta.
  rewrite !Z.shiftl_1_l. rewrite parent_contains by (try assumption; lia).
  unfold odo, body, REL, SRC, WS, zs, wsf. fold L LP cpos ppos.
  destruct per; reflexivity.
Qed.

Lemma ilist_exact_sec : ilist_active per l = true ->
  Permutation (ilist_cell d per l idx) (ilist_spec d per l idx).
Proof.
  intros Hact. rewrite (ilist_cell_unfold Hact).
  replace (ilist_spec d per l idx) with (flat_map (sbi d per l cpos) (cube d (-3) 3)).
  - exact ilist_flat_perm.
  - unfold ilist_spec. rewrite Hact. reflexivity.
Qed.
End IL.

Theorem ilist_exact : forall d per l idx, (0 < d)%nat -> 0 <= l -> 0 <= idx < 2 ^ (l * dz d) ->
  Permutation (ilist_cell d per l idx) (ilist_spec d per l idx).
Proof.
  intros d per l idx Hd Hl Hidx.
  destruct (ilist_active per l) eqn:Hact.
  - apply ilist_exact_sec; try assumption.
    unfold ilist_active in Hact. destruct per; lia.
  - unfold ilist_cell, ilist_spec. rewrite Hact. cbn [negb]. apply Permutation_refl.
Qed.

Print Assumptions dec7_enc7.
Print Assumptions enc7_dec7.
Print Assumptions dec3_enc3.
Print Assumptions enc3_dec3.
Print Assumptions upper_half.
Print Assumptions upper_half_antisym.
Print Assumptions nlist_exact.
Print Assumptions ilist_exact.
