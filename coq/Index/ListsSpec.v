(* Specification of the interaction and neighbour lists, written on grid
   coordinates directly from the property text (C11):
   - interaction list of a cell c at level l: the cells u = c + o, o in [-3,3]^d, that are children of
     a neighbour of c's parent (|u/2 - c/2| <= 1 per dimension) and not adjacent to c (some |o_j| > 1);
     clipped to the grid when not periodic, wrapped (mod 2^l) when periodic; tagged enc7 o.
   - neighbour list: u = c + o, o in [-1,1]^d \ {0}; clipped or wrapped; tagged enc3 o. *)
From Tbfmm Require Import Base.Prelude Index.MortonDefs Index.ListsDefs.
Local Open Scope Z_scope.

Section Spec.
Variable d : nat.
Variable per : bool.

(* all offset vectors of [lo,hi]^d, first dimension slowest *)
Definition cube (lo hi : Z) : list (list Z) := odometer (repeat (lo, hi) d).

Definition in_grid (l : Z) (u : list Z) : bool := forallb (fun x => (0 <=? x) && (x <? 2 ^ l)) u.

Definition wrap (l : Z) (u : list Z) : list Z := map (fun x => x mod 2 ^ l) u.

Definition parents_adjacent (c u : list Z) : bool :=
  forallb (fun r => Z.abs r <=? 1) (map2 Z.sub (map (fun x => x / 2) u) (map (fun x => x / 2) c)).

Definition ilist_spec (l : Z) (idx : Z) : list (Z * Z) :=
  if negb (ilist_active per l) then [] else
  let c := unbox d idx in
  flat_map (fun o =>
    let u := map2 Z.add c o in
    if too_close o then []
    else if negb (parents_adjacent c u) then []
    else if per then [(box d (wrap l u), enc7 o)]
    else if in_grid l u then [(box d u, enc7 o)] else [])
    (cube (-3) 3).

Definition lex_positive (o : list Z) : bool :=
  Z.quot (pow3d d) 2 <? enc3 o.

Definition nlist_spec (l : Z) (upper : bool) (idx : Z) : list (Z * Z) :=
  let c := unbox d idx in
  flat_map (fun o =>
    let u := map2 Z.add c o in
    if forallb (Z.eqb 0) o then []
    else if upper && negb (lex_positive o) then []
    else if per then [(box d (wrap l u), enc3 o)]
    else if in_grid l u then [(box d u, enc3 o)] else [])
    (cube (-1) 1).

End Spec.
