(* Proofs about the Morton index model. *)
From Tbfmm Require Import Base.Prelude Index.MortonDefs.
From Coq Require Import ZifyBool Zify.
Local Open Scope Z_scope.
Ltac Zify.zify_post_hook ::= Z.div_mod_to_equations.

Section Proofs.
Variable d : nat.
Notation dz := (dz d).

Lemma dz_nonneg : 0 <= dz.
Proof. unfold MortonDefs.dz. lia. Qed.

Lemma pow_dz_pos : 0 < 2 ^ dz.
Proof. apply Z.pow_pos_nonneg; [lia | apply dz_nonneg]. Qed.

Lemma parent_div i : parent d i = i / 2 ^ dz.
Proof. unfold parent. apply Z.shiftr_div_pow2. apply dz_nonneg. Qed.

Lemma child_code_mod i : child_code d i = i mod 2 ^ dz.
Proof.
  unfold child_code. replace (2 ^ dz - 1) with (Z.ones dz).
  - apply Z.land_ones. apply dz_nonneg.
  - rewrite Z.ones_equiv. lia.
Qed.

Lemma child_mul p c : child d p c = p * 2 ^ dz + c.
Proof. unfold child. rewrite Z.shiftl_mul_pow2 by apply dz_nonneg. reflexivity. Qed.

Lemma child_parent p c :
  0 <= c < 2 ^ dz -> parent d (child d p c) = p /\ child_code d (child d p c) = c.
Proof.
  intros Hc. rewrite parent_div, child_code_mod, child_mul.
  pose proof pow_dz_pos as Hp. split.
  - rewrite Z.add_comm, Z.div_add by lia. rewrite Z.div_small by lia. lia.
  - rewrite Z.add_comm, Z.mod_add by lia. apply Z.mod_small; lia.
Qed.

Lemma parent_child_code i : child d (parent d i) (child_code d i) = i.
Proof.
  rewrite parent_div, child_code_mod, child_mul.
  pose proof pow_dz_pos as Hp. pose proof (Z.div_mod i (2 ^ dz)). lia.
Qed.

End Proofs.
