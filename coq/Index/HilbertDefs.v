(* Executable model of TbfHilbertSpaceIndex (src/spacial/tbfhilbertspaceindex.hpp:85-146, 179-242): the Hilbert<->Morton table
   automata driven from the TREE HEIGHT (not from the cell's level), over the regenerated tables. Dimension 3. *)
From Tbfmm Require Import Base.Prelude Index.MortonDefs Index.ListsDefs Gen.HilbertTablesGen.
Local Open Scope Z_scope.

Definition tbl (t : list (list (Z * Z))) (state trip : Z) : Z * Z :=
  nth (Z.to_nat trip) (nth (Z.to_nat state) t []) (0, 0).

(* for (h = H; h > 0; --h): triplet = (ind & mask) >> shift; out |= table[state][triplet].triplet << shift; state = next *)
Fixpoint automaton (t : list (list (Z * Z))) (n : nat) (ind state res : Z) : Z :=
  match n with
  | O => res
  | S k =>
      let shift := Z.of_nat k * 3 in
      let trip := Z.land (Z.shiftr ind shift) 7 in
      let '(o, next) := tbl t state trip in
      automaton t k ind next (Z.lor res (Z.shiftl o shift))
  end.

Definition h2m (H : Z) (i : Z) : Z := automaton hilbert2morton_table (Z.to_nat H) i 0 0.
Definition m2h (H : Z) (i : Z) : Z := automaton morton2hilbert_table (Z.to_nat H) i 0 0.

(* getBoxPosFromIndex / getIndexFromBoxPos / parent / child code of the Hilbert class *)
Definition h_unbox (H : Z) (i : Z) : list Z := unbox 3 (h2m H i).
Definition h_box (H : Z) (p : list Z) : Z := m2h H (box 3 p).
Definition h_parent (i : Z) : Z := Z.shiftr i 3.
Definition h_child_code (i : Z) : Z := Z.land i 7.

(* the list builders of the Hilbert class are textual copies of the Morton ones over its own box/unbox *)
Section HLists.
Variable H : Z.
Variable per : bool.
Definition h_ilist_cell (l : Z) (idx : Z) : list (Z * Z) :=
  if negb (ilist_active per l) then [] else
  let lim := Z.shiftl 1 l in
  let limP := Z.shiftl 1 (l - 1) in
  let cpos := h_unbox H idx in
  let ppos := h_unbox H (h_parent idx) in
  flat_map (fun delta =>
    let op0 := map2 Z.add ppos delta in
    let ws := if per then map (wrap_parent limP lim) op0 else map (fun p => (p, 0)) op0 in
    let opidx := h_box H (map fst ws) in
    let shift := map snd ws in
    flat_map (fun c =>
      let ch := Z.shiftl opidx 3 + c in
      let rel := map2 Z.sub (map2 Z.add (h_unbox H ch) shift) cpos in
      if too_close rel then [] else [(ch, enc7 rel)])
      (zseq 8))
    (odometer (lims_of per ppos limP)).

Definition h_nlist_cell (l : Z) (upper : bool) (idx : Z) : list (Z * Z) :=
  let lim := Z.shiftl 1 l in
  let cpos := h_unbox H idx in
  flat_map (fun delta =>
    if forallb (Z.eqb 0) delta then [] else
    let other0 := map2 Z.add cpos delta in
    let code := enc3 (map2 Z.sub other0 cpos) in
    let other := if per then map (fun o => Z.rem (o + lim) lim) other0 else other0 in
    let oidx := h_box H other in
    if negb upper || (Z.quot (pow3d 3) 2 <? code) then [(oidx, code)] else [])
    (odometer (lims_of per cpos lim)).
End HLists.
