(* Proofs about the Hilbert index model (Index/HilbertDefs.v):
   - the two regenerated tables are mutually inverse automata (finite check),
   - h2m / m2h are inverse bijections of [0, 8^H) for every height H,
   - index <-> coordinates is a bijection at the leaf level,
   - the parent of an index is NOT the containing cell (defect), and how often. *)
From Tbfmm Require Import Base.Prelude Index.MortonDefs Index.MortonProofs Index.MortonBits
  Index.ListsDefs Gen.HilbertTablesGen Index.HilbertDefs.
From Coq Require Import ZifyBool Zify.
Local Open Scope Z_scope.
Ltac Zify.zify_post_hook ::= Z.div_mod_to_equations.

(* ------------------------------------------------------------------ *)
(* 1. The tables                                                        *)
(* ------------------------------------------------------------------ *)

Definition entry_ok (e : Z * Z) : bool :=
  let '(o, n) := e in (0 <=? o) && (o <? 8) && (0 <=? n) && (n <? 12).

(* 12 rows of 8, every triplet in 0..7, every next state in 0..11 *)
Definition table_wf (t : list (list (Z * Z))) : bool :=
  Nat.eqb (length t) 12 &&
  forallb (fun row => Nat.eqb (length row) 8 && forallb entry_ok row) t.

Theorem tables_inverse :
     forallb (fun s => forallb (fun x =>
        let '(y, n1) := tbl hilbert2morton_table s x in
        let '(x', n2) := tbl morton2hilbert_table s y in
        (x' =? x) && (n1 =? n2)) (zseq 8)) (zseq 12) = true
  /\ forallb (fun s => forallb (fun y =>
        let '(x, n1) := tbl morton2hilbert_table s y in
        let '(y', n2) := tbl hilbert2morton_table s x in
        (y' =? y) && (n1 =? n2)) (zseq 8)) (zseq 12) = true
  /\ table_wf hilbert2morton_table && table_wf morton2hilbert_table = true.
Proof. split; [|split]; vm_compute; reflexivity. Qed.

(* Prop form used by the inductive proofs: T2 undoes T1 from every state *)
Definition inv_ok (T1 T2 : list (list (Z * Z))) : Prop :=
  forall s x, 0 <= s < 12 -> 0 <= x < 8 ->
    exists y n, tbl T1 s x = (y, n) /\ tbl T2 s y = (x, n) /\ 0 <= y < 8 /\ 0 <= n < 12.

Definition inv_chk (T1 T2 : list (list (Z * Z))) (s x : Z) : bool :=
  let '(y, n1) := tbl T1 s x in
  let '(x', n2) := tbl T2 s y in
  (x' =? x) && (n1 =? n2) && (0 <=? y) && (y <? 8) && (0 <=? n1) && (n1 <? 12).

Lemma zseq_In n x : 0 <= x < n -> In x (zseq n).
Proof.
  intros Hx. unfold zseq, zrange. apply in_map_iff.
  exists (Z.to_nat x). cbv beta. split; [lia|]. apply in_seq. lia.
Qed.

Lemma inv_chk_all T1 T2 :
  forallb (fun s => forallb (inv_chk T1 T2 s) (zseq 8)) (zseq 12) = true -> inv_ok T1 T2.
Proof.
  intros Hall s x Hs Hx.
  rewrite forallb_forall in Hall. specialize (Hall s (zseq_In _ _ Hs)).
  rewrite forallb_forall in Hall. specialize (Hall x (zseq_In _ _ Hx)).
  unfold inv_chk in Hall.
  destruct (tbl T1 s x) as [y n1].
  destruct (tbl T2 s y) as [x' n2] eqn:E2.
  exists y, n1.
  assert (E : x' = x /\ n1 = n2 /\ 0 <= y < 8 /\ 0 <= n1 < 12) by lia.
  destruct E as (-> & -> & Hy & Hn). split; [reflexivity|]. split; [exact E2|]. split; assumption.
Qed.

Lemma inv_h2m_m2h : inv_ok hilbert2morton_table morton2hilbert_table.
Proof. apply inv_chk_all. vm_compute. reflexivity. Qed.

Lemma inv_m2h_h2m : inv_ok morton2hilbert_table hilbert2morton_table.
Proof. apply inv_chk_all. vm_compute. reflexivity. Qed.

(* ------------------------------------------------------------------ *)
(* 2. Arithmetic (base 8 digits) form of the automaton                  *)
(* ------------------------------------------------------------------ *)

Fixpoint aut (t : list (list (Z * Z))) (n : nat) (x s : Z) : Z :=
  match n with
  | O => 0
  | S k =>
      let '(o, nx) := tbl t s ((x / 8 ^ Z.of_nat k) mod 8) in
      o * 8 ^ Z.of_nat k + aut t k x nx
  end.

Lemma aut_S t k x s :
  aut t (S k) x s =
  let '(o, nx) := tbl t s ((x / 8 ^ Z.of_nat k) mod 8) in
  o * 8 ^ Z.of_nat k + aut t k x nx.
Proof. reflexivity. Qed.

Lemma pow8 k : 0 <= k -> 8 ^ k = 2 ^ (k * 3).
Proof.
  intros Hk. rewrite Z.mul_comm, Z.pow_mul_r by lia. reflexivity.
Qed.

Lemma pow8_pos k : 0 <= k -> 0 < 8 ^ k.
Proof. intros Hk. apply Z.pow_pos_nonneg; lia. Qed.

Lemma pow8_S k : 8 ^ Z.of_nat (S k) = 8 ^ Z.of_nat k * 8.
Proof. rewrite Nat2Z.inj_succ, Z.pow_succ_r by lia. lia. Qed.

Lemma trip_eq x k : 0 <= k ->
  Z.land (Z.shiftr x (k * 3)) 7 = (x / 8 ^ k) mod 8.
Proof.
  intros Hk. rewrite Z.shiftr_div_pow2 by lia.
  change 7 with (Z.ones 3). rewrite Z.land_ones by lia.
  rewrite pow8 by lia. reflexivity.
Qed.

Lemma lor_add o m A : 0 <= m -> 0 <= A < 2 ^ m ->
  Z.lor (Z.shiftl o m) A = o * 2 ^ m + A.
Proof.
  intros Hm HA. rewrite Z.shiftl_mul_pow2 by lia.
  assert (HL : Z.land (o * 2 ^ m) A = 0).
  { apply Z.bits_inj'. intros n Hn. rewrite Z.land_spec, Z.bits_0.
    destruct (Z.lt_ge_cases n m) as [Hlt|Hge].
    - rewrite Z.mul_pow2_bits_low by lia. reflexivity.
    - rewrite (proj1 (lt_pow2_bits A m ltac:(lia) Hm) ltac:(lia) n Hge).
      apply andb_false_r. }
  rewrite <- (Z.lxor_lor _ _ HL). symmetry. apply Z.add_nocarry_lxor. exact HL.
Qed.

Section Aut.
Variables T1 T2 : list (list (Z * Z)).
Hypothesis INV : inv_ok T1 T2.

Lemma digit_range x k : 0 <= (x / 8 ^ Z.of_nat k) mod 8 < 8.
Proof. apply Z.mod_pos_bound. lia. Qed.

Lemma aut_range : forall n x s, 0 <= s < 12 -> 0 <= aut T1 n x s < 8 ^ Z.of_nat n.
Proof.
  induction n as [|k IH]; intros x s Hs.
  - cbn. lia.
  - rewrite aut_S, pow8_S.
    destruct (INV s _ Hs (digit_range x k)) as (y & n & E1 & _ & Hy & Hn).
    rewrite E1. specialize (IH x n Hn).
    pose proof (pow8_pos (Z.of_nat k) ltac:(lia)). nia.
Qed.

Lemma automaton_aut : forall n x s res, 0 <= s < 12 ->
  automaton T1 n x s res = Z.lor res (aut T1 n x s).
Proof.
  induction n as [|k IH]; intros x s res Hs.
  - cbn. rewrite Z.lor_0_r. reflexivity.
  - rewrite aut_S. cbn [automaton].
    rewrite trip_eq by lia.
    destruct (INV s _ Hs (digit_range x k)) as (y & n & E1 & _ & Hy & Hn).
    rewrite E1. rewrite (IH x n _ Hn).
    rewrite <- Z.lor_assoc. f_equal.
    pose proof (aut_range k x n Hn) as HR.
    rewrite pow8 in * by lia.
    apply lor_add; lia.
Qed.

End Aut.

(* only the n low digits matter *)
Lemma aut_mod t : forall n x c s, aut t n (x + c * 8 ^ Z.of_nat n) s = aut t n x s.
Proof.
  induction n as [|k IH]; intros x c s.
  - reflexivity.
  - rewrite !aut_S, pow8_S.
    pose proof (pow8_pos (Z.of_nat k) ltac:(lia)) as Hp.
    replace (x + c * (8 ^ Z.of_nat k * 8)) with (x + (c * 8) * 8 ^ Z.of_nat k) by ring.
    rewrite Z.div_add by lia.
    rewrite Z.mod_add by lia.
    destruct (tbl t s ((x / 8 ^ Z.of_nat k) mod 8)) as [o nx].
    rewrite IH. reflexivity.
Qed.

Section Sim.
Variables T1 T2 : list (list (Z * Z)).
Hypothesis INV : inv_ok T1 T2.

(* tables_inverse lifted along the word *)
Lemma aut_sim : forall n x s, 0 <= s < 12 ->
  aut T2 n (aut T1 n x s) s = x mod 8 ^ Z.of_nat n.
Proof.
  induction n as [|k IH]; intros x s Hs.
  - cbn. rewrite Z.mod_1_r. reflexivity.
  - rewrite (aut_S T1).
    destruct (INV s _ Hs (digit_range x k)) as (y & n & E1 & E2 & Hy & Hn).
    rewrite E1.
    pose proof (aut_range T1 T2 INV k x n Hn) as HR.
    pose proof (pow8_pos (Z.of_nat k) ltac:(lia)) as Hp.
    rewrite aut_S.
    assert (D : ((y * 8 ^ Z.of_nat k + aut T1 k x n) / 8 ^ Z.of_nat k) mod 8 = y).
    { rewrite Z.add_comm, Z.div_add by lia.
      rewrite (Z.div_small (aut T1 k x n)) by lia.
      rewrite Z.add_0_l. apply Z.mod_small. lia. }
    rewrite D, E2.
    rewrite (Z.add_comm (y * 8 ^ Z.of_nat k)), aut_mod, (IH x n Hn).
    rewrite pow8_S, Z.rem_mul_r by lia. ring.
Qed.

End Sim.

(* ------------------------------------------------------------------ *)
(* 3. h2m / m2h                                                         *)
(* ------------------------------------------------------------------ *)

Lemma s0 : 0 <= 0 < 12. Proof. lia. Qed.

Lemma h2m_aut H i : h2m H i = aut hilbert2morton_table (Z.to_nat H) i 0.
Proof.
  unfold h2m. rewrite (automaton_aut _ _ inv_h2m_m2h) by exact s0.
  apply Z.lor_0_l.
Qed.

Lemma m2h_aut H i : m2h H i = aut morton2hilbert_table (Z.to_nat H) i 0.
Proof.
  unfold m2h. rewrite (automaton_aut _ _ inv_m2h_h2m) by exact s0.
  apply Z.lor_0_l.
Qed.

Theorem hilbert_roundtrip : forall H i, 0 <= H -> 0 <= i < 8 ^ H ->
  h2m H (m2h H i) = i /\ m2h H (h2m H i) = i.
Proof.
  intros H i HH Hi. rewrite !h2m_aut, !m2h_aut.
  rewrite <- (Z2Nat.id H HH) in Hi.
  rewrite (aut_sim _ _ inv_m2h_h2m) by exact s0.
  rewrite (aut_sim _ _ inv_h2m_m2h) by exact s0.
  rewrite Z.mod_small by exact Hi. split; reflexivity.
Qed.

Theorem hilbert_range : forall H i, 0 <= H -> 0 <= i < 8 ^ H ->
  0 <= h2m H i < 8 ^ H /\ 0 <= m2h H i < 8 ^ H.
Proof.
  intros H i HH _. rewrite h2m_aut, m2h_aut.
  assert (E : 8 ^ H = 8 ^ Z.of_nat (Z.to_nat H)) by (rewrite Z2Nat.id by exact HH; reflexivity).
  rewrite E. split.
  - apply (aut_range _ _ inv_h2m_m2h). exact s0.
  - apply (aut_range _ _ inv_m2h_h2m). exact s0.
Qed.

(* state 0 maps triplet 0 to triplet 0: an index below 8^(H-1) stays below 8^(H-1) *)
Lemma m2h_top_zero H b : 1 <= H -> 0 <= b < 8 ^ (H - 1) -> 0 <= m2h H b < 8 ^ (H - 1).
Proof.
  intros HH Hb. rewrite m2h_aut.
  replace (Z.to_nat H) with (S (Z.to_nat (H - 1))) by lia.
  assert (E : 8 ^ (H - 1) = 8 ^ Z.of_nat (Z.to_nat (H - 1)))
    by (rewrite Z2Nat.id by lia; reflexivity).
  rewrite E in *. clear E.
  set (k := Z.to_nat (H - 1)) in *.
  rewrite aut_S.
  rewrite (Z.div_small b) by lia.
  change (tbl morton2hilbert_table 0 (0 mod 8)) with (0, 1).
  cbv beta iota. rewrite Z.mul_0_l, Z.add_0_l.
  apply (aut_range _ _ inv_m2h_h2m). lia.
Qed.

Theorem hilbert_leaf_bijection : forall H p, 1 <= H -> length p = 3%nat ->
  Forall (fun x => 0 <= x < 2 ^ (H - 1)) p ->
  h_unbox H (h_box H p) = p /\ 0 <= h_box H p < 8 ^ (H - 1).
Proof.
  intros H p HH Hlen HF.
  assert (Hnn : Forall (fun x => 0 <= x) p).
  { eapply Forall_impl; [|exact HF]. cbv beta. intros; lia. }
  assert (Hlt : Forall (fun x => x < 2 ^ (H - 1)) p).
  { eapply Forall_impl; [|exact HF]. cbv beta. intros; lia. }
  pose proof (box_nonneg 3 p Hlen Hnn) as Hb0.
  assert (Hb1 : box 3 p < 8 ^ (H - 1)).
  { rewrite pow8 by lia.
    apply (proj1 (box_range 3 p (H - 1) ltac:(lia) ltac:(lia) Hlen Hnn)). exact Hlt. }
  assert (Hb2 : 0 <= box 3 p < 8 ^ H).
  { split; [exact Hb0|]. replace H with (Z.succ (H - 1)) by lia.
    rewrite Z.pow_succ_r by lia. lia. }
  unfold h_unbox, h_box. split.
  - rewrite (proj1 (hilbert_roundtrip H (box 3 p) ltac:(lia) Hb2)).
    apply unbox_box; [lia|exact Hlen|exact Hnn].
  - apply m2h_top_zero; lia.
Qed.

(* ------------------------------------------------------------------ *)
(* 4. The defect: parent of an index is not the containing cell         *)
(* ------------------------------------------------------------------ *)

Theorem hilbert_parent_refuted : exists H i, 0 <= i < 8 ^ (H - 1) /\
  h_unbox H (h_parent i) <> map (fun x => x / 2) (h_unbox H i).
Proof.
  exists 4, 100. split; [vm_compute; split; [discriminate|reflexivity]|].
  vm_compute. discriminate.
Qed.

Theorem hilbert_parent_refuted_count :
  length (filter (fun i => negb (list_eqb Z.eqb (h_unbox 4 (h_parent i))
                                   (map (fun x => x / 2) (h_unbox 4 i)))) (zseq 512)) = 480%nat.
Proof. vm_compute. reflexivity. Qed.

Print Assumptions tables_inverse.
Print Assumptions hilbert_roundtrip.
Print Assumptions hilbert_range.
Print Assumptions hilbert_leaf_bijection.
Print Assumptions hilbert_parent_refuted.
Print Assumptions hilbert_parent_refuted_count.
