(* Property C15: signed 64-bit overflow of the intermediates of getIndexFromBoxPos.
   - under [box_guard] no recorded intermediate reaches 2^63 ([box_guard_safe]);
   - all intermediates are non-negative ([box_trace_nonneg]);
   - "the index fits" does not imply safety ([box_overflow_refuted]);
   - the guard is tight on the all-ones corner for d = 1..4 ([box_guard_tight_corner]). *)
From Tbfmm Require Import Base.Prelude Index.MortonDefs Index.MortonProofs Index.OverflowDefs Index.MortonBits.
From Coq Require Import ZifyBool Zify.
Local Open Scope Z_scope.
Ltac Zify.zify_post_hook ::= Z.div_mod_to_equations.

(* ------------------------------------------------------------------ *)
(* Finite facts (computation)                                          *)
(* ------------------------------------------------------------------ *)

Theorem box_overflow_refuted : exists d l pos, length pos = d /\
  Forall (fun p => 0 <= p < 2 ^ l) pos /\ box d pos < 2 ^ 62 /\ box_safe d pos = false.
Proof.
  exists 3%nat, 19, [2 ^ 19 - 1; 2 ^ 19 - 1; 2 ^ 19 - 1].
  split; [reflexivity|]. split.
  - repeat constructor; vm_compute; congruence.
  - split; vm_compute; reflexivity.
Qed.

Definition tight_sweep : bool :=
  forallb (fun d => forallb (fun l => implb (negb (box_guard d l))
                                            (negb (box_safe d (repeat (2 ^ l - 1) d))))
                            (zrange 1 63))
          [1; 2; 3; 4]%nat.

Lemma tight_sweep_true : tight_sweep = true.
Proof. vm_compute. reflexivity. Qed.

Theorem box_guard_tight_corner : forall d l, (1 <= d <= 4)%nat -> 1 <= l <= 63 ->
  box_guard d l = false -> box_safe d (repeat (2 ^ l - 1) d) = false.
Proof.
  intros d l Hd Hl Hg.
  pose proof tight_sweep_true as H. unfold tight_sweep in H.
  rewrite forallb_forall in H.
  assert (Hin : In d [1; 2; 3; 4]%nat) by (cbn [In]; lia).
  specialize (H d Hin). rewrite forallb_forall in H.
  assert (Hil : In l (zrange 1 63)).
  { unfold zrange. change (Z.to_nat (63 - 1 + 1)) with 63%nat.
    apply in_map_iff. exists (Z.to_nat (l - 1)). split; [lia|].
    apply in_seq. lia. }
  specialize (H l Hil). rewrite Hg in H. cbn [negb implb] in H.
  destruct (box_safe d (repeat (2 ^ l - 1) d)); [discriminate H|reflexivity].
Qed.

(* ------------------------------------------------------------------ *)
(* Generic facts on the instrumented loop                              *)
(* ------------------------------------------------------------------ *)

Section Tr.
Variable d : nat.
Notation dz := (MortonDefs.dz d).

Lemma box_round_tr_cons j m rest index mask c :
  box_round_tr d ((j, m) :: rest) index mask c =
  let res := box_round_tr d rest (Z.lor index (Z.land m mask)) (Z.shiftl mask 1)
               (c || (Z.shiftl (Z.shiftl mask 1) (dz - j - 1) <=? Z.shiftl m (dz - 1))) in
  ((j, Z.shiftl m (dz - 1)) :: fst (fst (fst (fst res))), snd (fst (fst (fst res))),
   snd (fst (fst res)), snd (fst res),
   Z.lor index (Z.land m mask) :: Z.shiftl mask 1 :: Z.shiftl m (dz - 1)
     :: Z.shiftl (Z.shiftl mask 1) (dz - j - 1) :: snd res).
Proof.
  cbn [box_round_tr]. cbv zeta.
  destruct (box_round_tr d rest (Z.lor index (Z.land m mask)) (Z.shiftl mask 1)
              (c || (Z.shiftl (Z.shiftl mask 1) (dz - j - 1) <=? Z.shiftl m (dz - 1))))
    as [[[[r i2] m2] c2] tr].
  reflexivity.
Qed.

Definition nn_mc (mc : list (Z * Z)) : Prop := Forall (fun jm => 0 <= snd jm) mc.

Lemma round_tr_nonneg : forall mc index mask c, nn_mc mc -> 0 <= index -> 0 <= mask ->
  nn_mc (fst (fst (fst (fst (box_round_tr d mc index mask c))))) /\
  0 <= snd (fst (fst (fst (box_round_tr d mc index mask c)))) /\
  0 <= snd (fst (fst (box_round_tr d mc index mask c))) /\
  Forall (fun v => 0 <= v) (snd (box_round_tr d mc index mask c)).
Proof.
  induction mc as [|[j m] rest IH]; intros index mask c Hmc Hi Hm.
  - cbn [box_round_tr fst snd]. repeat split; try assumption; constructor.
  - rewrite box_round_tr_cons. cbv zeta. cbn [fst snd].
    inversion Hmc as [|x y Hm0 Hrest]; subst. cbn [snd] in Hm0.
    assert (H1 : 0 <= Z.lor index (Z.land m mask)).
    { apply Z.lor_nonneg. split; [exact Hi|]. apply Z.land_nonneg. left. exact Hm0. }
    assert (H2 : 0 <= Z.shiftl mask 1) by (apply Z.shiftl_nonneg; exact Hm).
    assert (H3 : 0 <= Z.shiftl m (dz - 1)) by (apply Z.shiftl_nonneg; exact Hm0).
    assert (H4 : 0 <= Z.shiftl (Z.shiftl mask 1) (dz - j - 1)) by (apply Z.shiftl_nonneg; exact H2).
    destruct (IH (Z.lor index (Z.land m mask)) (Z.shiftl mask 1)
                 (c || (Z.shiftl (Z.shiftl mask 1) (dz - j - 1) <=? Z.shiftl m (dz - 1)))
                 Hrest H1 H2) as (A & B & C & D).
    split; [constructor; [cbn [snd]; exact H3|exact A]|].
    split; [exact B|]. split; [exact C|].
    repeat (constructor; [assumption|]). exact D.
Qed.

Lemma loop_tr_nonneg : forall fuel mc index mask c, nn_mc mc -> 0 <= index -> 0 <= mask ->
  Forall (fun v => 0 <= v) (box_loop_tr d fuel mc index mask c).
Proof.
  induction fuel as [|f IH]; intros mc index mask c Hmc Hi Hm.
  - cbn [box_loop_tr]. destruct c; constructor.
  - cbn [box_loop_tr]. destruct c; [|constructor].
    destruct (round_tr_nonneg mc index mask false Hmc Hi Hm) as (A & B & C & D).
    destruct (box_round_tr d mc index mask false) as [[[[r i2] m2] c2] tr].
    cbn [fst snd] in A, B, C, D.
    apply Forall_app. split; [exact D|]. apply IH; assumption.
Qed.

Lemma map2_nn (f : Z -> Z -> Z) : forall l1 l2,
  (forall a b, 0 <= b -> 0 <= f a b) -> Forall (fun x => 0 <= x) l2 ->
  nn_mc (map2 (fun j p => (j, f j p)) l1 l2).
Proof.
  intros l1 l2 Hf. revert l2.
  induction l1 as [|a r1 IH]; intros [|b r2] H2; cbn [map2]; try constructor.
  - cbn [snd]. apply Hf. inversion H2; assumption.
  - apply IH. inversion H2; assumption.
Qed.

Lemma init_nn pos : Forall (fun x => 0 <= x) pos -> nn_mc (box_init d pos).
Proof.
  intros H. unfold box_init, nn_mc. apply Forall_rev.
  apply (map2_nn (fun j p => Z.shiftl p (dz - j - 1))); [|exact H].
  intros a b Hb. apply Z.shiftl_nonneg. exact Hb.
Qed.

End Tr.

Theorem box_trace_nonneg : forall d pos, length pos = d -> Forall (fun p => 0 <= p) pos ->
  Forall (fun v => 0 <= v) (box_trace d pos).
Proof.
  intros d pos _ Hnn. unfold box_trace.
  pose proof (init_nn d pos Hnn) as Hmc.
  apply Forall_app. split.
  - apply Forall_forall. intros v Hv. apply in_map_iff in Hv. destruct Hv as (jm & <- & Hin).
    unfold nn_mc in Hmc. rewrite Forall_forall in Hmc. apply Hmc. exact Hin.
  - apply Forall_app. split.
    + apply Forall_forall. intros v Hv. apply in_map_iff in Hv. destruct Hv as (jm & <- & Hin).
      apply Z.shiftl_nonneg. lia.
    + apply loop_tr_nonneg; [exact Hmc|lia|lia].
Qed.

(* ------------------------------------------------------------------ *)
(* Safety under the guard                                              *)
(* ------------------------------------------------------------------ *)

Section Safe.
Variable d : nat.
Notation dz := (MortonDefs.dz d).
Notation pd := (Z.of_nat (Init.Nat.pred d)).
Variable p : list Z.
Hypothesis Hlen : length p = d.
Hypothesis Hnn : Forall (fun x => 0 <= x) p.
Hypothesis Hd : (0 < d)%nat.
Variable L : Z.
Hypothesis HL : 0 <= L.
Hypothesis HbL : below d p L.
Hypothesis HG : (L + dz - 1) * dz + dz - 1 <= 62.

Notation pj := (MortonBits.pj d p).
Notation ent := (MortonBits.ent d p).
Notation cnd := (MortonBits.cnd d p).
Notation ibits := (MortonBits.ibits d p).
Notation mcs := (MortonBits.mcs d p).

Definition safe63 (v : Z) : Prop := v < 2 ^ 63.

Lemma lt_pow63 a e : a < 2 ^ e -> e <= 63 -> a < 2 ^ 63.
Proof.
  intros Ha He. destruct (Z.lt_ge_cases e 0) as [Hneg|Hpos].
  - rewrite Z.pow_neg_r in Ha by exact Hneg.
    assert (0 < 2 ^ 63) by (apply Z.pow_pos_nonneg; lia). lia.
  - assert (2 ^ e <= 2 ^ 63) by (apply Z.pow_le_mono_r; lia). lia.
Qed.

Lemma pow_add2 a b : 0 <= a -> 0 <= b -> 2 ^ a * 2 ^ b = 2 ^ (a + b).
Proof. intros. rewrite Z.pow_add_r by lia. reflexivity. Qed.

Lemma pow_lt63 e : 0 <= e <= 62 -> 2 ^ e < 2 ^ 63.
Proof. intros He. apply Z.pow_lt_mono_r; lia. Qed.

Lemma ibits_lt N index : 0 <= N -> ibits N index -> index < 2 ^ N.
Proof.
  intros HN Hi.
  assert (Hb : forall n, N <= n -> Z.testbit index n = false).
  { intros n Hn. rewrite (Hi n ltac:(lia)).
    destruct (Z.ltb_spec n N); [lia|reflexivity]. }
  assert (H0 : 0 <= index).
  { apply (nonneg_of_bits _ N). intros n Hn. apply Hb. lia. }
  apply (lt_pow2_bits _ _ H0 HN). exact Hb.
Qed.

Lemma dz_eq : dz = pd + 1.
Proof. apply dz_pd. exact Hd. Qed.

Lemma round_bound k : 0 <= k -> k <= L + dz - 2 -> (k + 1) * dz + dz - 1 <= 62.
Proof.
  intros Hk Hk2. pose proof (dz_nn d) as H0.
  assert ((k + 1) * dz <= (L + dz - 1) * dz) by (apply Z.mul_le_mono_nonneg_r; lia).
  lia.
Qed.

Lemma round_tr_spec k : 0 <= k -> k <= L + dz - 2 -> forall r s index c, (s + r = d)%nat ->
  ibits (k * dz + Z.of_nat s) index ->
  exists index' tr,
    box_round_tr d (map (ent k) (seq s r)) index (2 ^ (k * dz + Z.of_nat s)) c
    = (map (ent (k + 1)) (seq s r), index', 2 ^ ((k + 1) * dz),
       c || existsb (cnd k) (seq s r), tr)
    /\ ibits ((k + 1) * dz) index' /\ Forall safe63 tr.
Proof using Hlen Hnn Hd HL HbL HG.
  intros Hk Hk2. pose proof (dz_nn d) as Hdz0. pose proof (pd_nonneg d) as Hpd.
  pose proof dz_eq as Hdz. pose proof (round_bound k Hk Hk2) as HR.
  induction r as [|r IH]; intros s index c Hs Hi.
  - cbn [seq map box_round_tr existsb]. exists index, []. rewrite orb_false_r.
    assert (E : (k + 1) * dz = k * dz + Z.of_nat s) by (unfold MortonDefs.dz; lia).
    rewrite E. split; [reflexivity|]. split; [exact Hi|constructor].
  - cbn [seq map]. unfold MortonBits.ent at 1. cbv zeta. rewrite box_round_tr_cons. cbv zeta.
    assert (Hsz : Z.of_nat s + 1 <= dz) by (unfold MortonDefs.dz; lia).
    assert (HN : 0 <= k * dz + Z.of_nat s) by nia.
    assert (E1 : Z.shiftl (2 ^ (k * dz + Z.of_nat s)) 1 = 2 ^ (k * dz + Z.of_nat (S s))).
    { rewrite Z.shiftl_mul_pow2 by lia. rewrite <- Z.pow_add_r by lia. f_equal. lia. }
    assert (E3 : Z.shiftl (Z.shiftl (pj s) (Z.of_nat s + k * pd)) (dz - 1)
                 = Z.shiftl (pj s) (Z.of_nat s + (k + 1) * pd)).
    { rewrite Z.shiftl_shiftl by nia. f_equal. rewrite Hdz. lia. }
    rewrite E3, E1.
    assert (E4 : Z.shiftl (2 ^ (k * dz + Z.of_nat (S s))) (dz - Z.of_nat (d - 1 - s) - 1)
                 = 2 ^ (k * dz + Z.of_nat s + 1 + Z.of_nat s)).
    { replace (dz - Z.of_nat (d - 1 - s) - 1) with (Z.of_nat s) by (unfold MortonDefs.dz; lia).
      rewrite Z.shiftl_mul_pow2 by lia. rewrite <- Z.pow_add_r by lia. f_equal. lia. }
    assert (E2 : (Z.shiftl (2 ^ (k * dz + Z.of_nat (S s))) (dz - Z.of_nat (d - 1 - s) - 1)
                  <=? Z.shiftl (pj s) (Z.of_nat s + (k + 1) * pd)) = cnd k s).
    { unfold MortonBits.cnd. cbv zeta.
      replace (dz - Z.of_nat (d - 1 - s) - 1) with (Z.of_nat s) by (unfold MortonDefs.dz; lia).
      replace (k * dz + Z.of_nat (S s)) with (k * dz + Z.of_nat s + 1) by lia.
      reflexivity. }
    rewrite E2.
    pose proof (ibits_step d p Hlen Hnn Hd k s index Hk ltac:(lia) Hi) as Hi1.
    destruct (IH (S s) _ (c || cnd k s) ltac:(lia) Hi1) as (index' & tr & EQ & HI & HT).
    rewrite EQ. cbn [fst snd]. exists index'. eexists. split; [|split; [exact HI|]].
    + cbn [existsb]. rewrite orb_assoc. reflexivity.
    + (* the four recorded values of this step *)
      assert (Hkd : k * dz + dz <= (k + 1) * dz) by lia.
      constructor.
      { unfold safe63. apply (lt_pow63 _ (k * dz + Z.of_nat (S s))); [|lia].
        apply ibits_lt; [lia|exact Hi1]. }
      constructor.
      { unfold safe63. apply pow_lt63. lia. }
      constructor.
      { unfold safe63. rewrite Z.shiftl_mul_pow2 by nia.
        assert (Hp : pj s < 2 ^ L) by (apply HbL; lia).
        assert (H0 : 0 < 2 ^ (Z.of_nat s + (k + 1) * pd)) by (apply Z.pow_pos_nonneg; nia).
        pose proof (proj1 (Z.mul_lt_mono_pos_r _ _ _ H0) Hp) as Hm.
        rewrite pow_add2 in Hm by nia.
        apply (lt_pow63 _ _ Hm).
        assert ((k + 1) * pd <= (L + dz - 1) * pd) by (apply Z.mul_le_mono_nonneg_r; lia).
        rewrite Hdz in HG. rewrite Hdz in Hsz. nia. }
      constructor; [|exact HT].
      { unfold safe63. rewrite E4. apply pow_lt63. lia. }
Qed.

Lemma loop_tr_safe : forall fuel k index c, 0 <= k -> ibits (k * dz) index ->
  (c = true -> k <= L + dz - 2) ->
  Forall safe63 (box_loop_tr d fuel (mcs k) index (2 ^ (k * dz)) c).
Proof using Hlen Hnn Hd HL HbL HG.
  induction fuel as [|f IH]; intros k index c Hk Hi Hc.
  - cbn [box_loop_tr]. destruct c; constructor.
  - cbn [box_loop_tr]. destruct c; [|constructor].
    specialize (Hc eq_refl).
    assert (Hi0 : ibits (k * dz + Z.of_nat 0) index).
    { change (Z.of_nat 0) with 0. rewrite Z.add_0_r. exact Hi. }
    destruct (round_tr_spec k Hk Hc d 0%nat index false ltac:(lia) Hi0)
      as (index' & tr & EQ & HI & HT).
    change (Z.of_nat 0) with 0 in EQ. rewrite Z.add_0_r in EQ.
    unfold MortonBits.mcs. rewrite EQ. cbn [orb].
    apply Forall_app. split; [exact HT|].
    apply IH; [lia|exact HI|].
    intros Hc'. destruct (Z.le_gt_cases (k + 1) (L + dz - 2)) as [|Hgt]; [assumption|].
    exfalso.
    rewrite (existsb_cnd_bound d p Hlen Hnn Hd k L Hk HL HbL ltac:(lia)) in Hc'.
    discriminate.
Qed.

Lemma init_cont_below0 : below d p 0 -> box_init_cont d (mcs 0) = false.
Proof using Hlen Hnn Hd.
  intros Hb. unfold box_init_cont, MortonBits.mcs. rewrite existsb_map, existsb_false.
  intros t Ht. apply in_seq in Ht. unfold MortonBits.ent. cbv zeta. cbn [fst snd].
  pose proof (pj_nonneg d p Hlen Hnn Hd t) as H0. pose proof (Hb t ltac:(lia)) as H1.
  change (2 ^ 0) with 1 in H1.
  assert (E : pj t = 0) by lia. rewrite E, Z.shiftl_0_l.
  replace (dz - Z.of_nat (d - 1 - t) - 1) with (Z.of_nat t) by (unfold MortonDefs.dz; lia).
  rewrite Z.shiftl_mul_pow2 by lia.
  assert (0 < 2 ^ Z.of_nat t) by (apply Z.pow_pos_nonneg; lia).
  destruct (Z.leb_spec (1 * 2 ^ Z.of_nat t) 0); [lia|reflexivity].
Qed.

Lemma trace_safe : Forall safe63 (box_trace d p).
Proof using Hlen Hnn Hd HL HbL HG.
  pose proof (dz_nn d) as Hdz0. pose proof (pd_nonneg d) as Hpd. pose proof dz_eq as Hdz.
  assert (HA : 0 <= (L + dz - 1) * dz) by nia.
  assert (HB : L + dz - 1 <= (L + dz - 1) * dz) by nia.
  unfold box_trace. rewrite (box_init_eq d p Hlen Hnn Hd).
  apply Forall_app. split; [|apply Forall_app; split].
  - apply Forall_forall. intros v Hv. apply in_map_iff in Hv. destruct Hv as (jm & <- & Hin).
    unfold MortonBits.mcs in Hin. apply in_map_iff in Hin. destruct Hin as (t & <- & Ht).
    apply in_seq in Ht. unfold MortonBits.ent. cbv zeta. cbn [snd].
    unfold safe63. rewrite Z.mul_0_l, Z.add_0_r. rewrite Z.shiftl_mul_pow2 by lia.
    assert (Hp : pj t < 2 ^ L) by (apply HbL; lia).
    assert (H0 : 0 < 2 ^ Z.of_nat t) by (apply Z.pow_pos_nonneg; lia).
    pose proof (proj1 (Z.mul_lt_mono_pos_r _ _ _ H0) Hp) as Hm.
    rewrite pow_add2 in Hm by lia.
    apply (lt_pow63 _ _ Hm). unfold MortonDefs.dz in *. lia.
  - apply Forall_forall. intros v Hv. apply in_map_iff in Hv. destruct Hv as (jm & <- & Hin).
    unfold MortonBits.mcs in Hin. apply in_map_iff in Hin. destruct Hin as (t & <- & Ht).
    apply in_seq in Ht. unfold MortonBits.ent. cbv zeta. cbn [fst].
    replace (dz - Z.of_nat (d - 1 - t) - 1) with (Z.of_nat t) by (unfold MortonDefs.dz; lia).
    unfold safe63. rewrite Z.shiftl_mul_pow2, Z.mul_1_l by lia.
    apply pow_lt63. unfold MortonDefs.dz in *. lia.
  - pose proof (loop_tr_safe (box_fuel d p) 0 0 (box_init_cont d (mcs 0)) ltac:(lia)
                  (ibits_0 d p Hlen Hd)) as H.
    rewrite Z.mul_0_l in H. change (2 ^ 0) with 1 in H. apply H.
    intros Hc. destruct (Z.le_gt_cases 0 (L + dz - 2)) as [|Hgt]; [assumption|]. exfalso.
    assert (EL : L = 0) by (unfold MortonDefs.dz in *; lia).
    rewrite init_cont_below0 in Hc; [discriminate|]. rewrite <- EL. exact HbL.
Qed.

End Safe.

Theorem box_guard_safe : forall d l pos, (0 < d)%nat -> 0 <= l -> length pos = d ->
  Forall (fun p => 0 <= p < 2 ^ l) pos ->
  box_guard d l = true -> box_safe d pos = true.
Proof.
  intros d l pos Hd Hl Hlen HF HG.
  unfold box_guard in HG. apply Z.leb_le in HG.
  assert (Hnn : Forall (fun x => 0 <= x) pos).
  { apply Forall_impl with (2 := HF). intros a Ha. lia. }
  assert (Hb : below d pos l).
  { intros t Ht. unfold MortonBits.pj. rewrite Forall_forall in HF.
    apply HF. apply nth_In. lia. }
  pose proof (trace_safe d pos Hlen Hnn Hd l Hl Hb HG) as HT.
  unfold box_safe. apply forallb_forall. intros v Hv.
  rewrite Forall_forall in HT. apply Z.ltb_lt. apply HT. exact Hv.
Qed.

Print Assumptions box_overflow_refuted.
Print Assumptions box_guard_tight_corner.
Print Assumptions box_trace_nonneg.
Print Assumptions box_guard_safe.
