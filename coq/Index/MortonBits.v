(* Bit-level characterisation of the Morton index model:
   [unbox]/[box] are the bit (de)interleaving maps, they are inverse of each
   other, and parent / child / child_code act coordinate-wise. *)
From Tbfmm Require Import Base.Prelude Index.MortonDefs Index.MortonProofs.
From Coq Require Import ZifyBool Zify.
Local Open Scope Z_scope.
Ltac Zify.zify_post_hook ::= Z.div_mod_to_equations.

(* ------------------------------------------------------------------ *)
(* Generic helpers                                                     *)
(* ------------------------------------------------------------------ *)

Lemma lt_pow2_bits a N : 0 <= a -> 0 <= N ->
  (a < 2 ^ N <-> forall n, N <= n -> Z.testbit a n = false).
Proof.
  intros Ha HN. split.
  - intros Hlt n Hn.
    destruct (Z.eq_dec a 0) as [->|Hne]; [apply Z.testbit_0_l|].
    apply Z.bits_above_log2; [exact Ha|].
    assert (Hl : Z.log2 a < N) by (apply Z.log2_lt_pow2; lia). lia.
  - intros Hb. destruct (Z.lt_ge_cases a (2 ^ N)) as [Hlt|Hge]; [exact Hlt|].
    exfalso.
    assert (Hp : 0 < 2 ^ N) by (apply Z.pow_pos_nonneg; lia).
    assert (Ha' : 0 < a) by lia.
    assert (Hl : N <= Z.log2 a) by (apply Z.log2_le_pow2; lia).
    pose proof (Z.bit_log2 a Ha') as Hbit.
    rewrite (Hb _ Hl) in Hbit. discriminate.
Qed.

Lemma nonneg_of_bits a N : (forall n, N < n -> Z.testbit a n = false) -> 0 <= a.
Proof. intros H. apply Z.bits_iff_nonneg_ex. exists N. exact H. Qed.

Lemma nth_map0 (f : Z -> Z) l j : f 0 = 0 -> nth j (map f l) 0 = f (nth j l 0).
Proof. intros H. rewrite <- (map_nth f l 0 j). rewrite H. reflexivity. Qed.

Lemma map2_length {A B C} (f : A -> B -> C) : forall l1 l2,
  length l1 = length l2 -> length (map2 f l1 l2) = length l1.
Proof.
  induction l1 as [|a r1 IH]; intros [|b r2] H; cbn [map2 length] in *; try lia.
  rewrite IH by lia. reflexivity.
Qed.

Lemma map2_nth {A B C} (f : A -> B -> C) da db dc : forall l1 l2 n,
  length l1 = length l2 -> (n < length l1)%nat ->
  nth n (map2 f l1 l2) dc = f (nth n l1 da) (nth n l2 db).
Proof.
  induction l1 as [|a r1 IH]; intros [|b r2] n H Hn; cbn [map2 length] in *; try lia.
  destruct n as [|n]; cbn [nth]; [reflexivity|]. apply IH; lia.
Qed.

Lemma map2_div_mod l :
  map2 (fun x b => 2 * x + b) (map (fun x => x / 2) l) (map (fun x => x mod 2) l) = l.
Proof.
  induction l as [|x r IH]; cbn [map map2]; [reflexivity|].
  rewrite IH. f_equal. lia.
Qed.

Lemma existsb_false {A} (f : A -> bool) l :
  existsb f l = false <-> forall x, In x l -> f x = false.
Proof.
  induction l as [|a r IH]; cbn [existsb In].
  - split; [intros _ x []|reflexivity].
  - rewrite orb_false_iff, IH. split.
    + intros [Ha Hr] x [<-|Hx]; auto.
    + intros H. split; [apply H; left; reflexivity|]. intros x Hx. apply H. right. exact Hx.
Qed.

Lemma existsb_map {A B} (f : B -> bool) (g : A -> B) l :
  existsb f (map g l) = existsb (fun x => f (g x)) l.
Proof. induction l as [|a r IH]; cbn [map existsb]; [reflexivity|]. rewrite IH. reflexivity. Qed.

Lemma fold_max_ge : forall l a, a <= fold_left Z.max l a /\ (forall x, In x l -> x <= fold_left Z.max l a).
Proof.
  induction l as [|y r IH]; intros a; cbn [fold_left In].
  - split; [lia|intros x []].
  - destruct (IH (Z.max a y)) as [H1 H2]. split; [lia|].
    intros x [<-|Hx]; [lia|apply H2; exact Hx].
Qed.

Section Bits.
Variable d : nat.
Notation dz := (MortonDefs.dz d).
Let pd : Z := Z.of_nat (pred d).

Lemma dz_pd : (0 < d)%nat -> dz = pd + 1.
Proof. unfold MortonDefs.dz, pd. lia. Qed.

Lemma pd_nonneg : 0 <= pd.
Proof. unfold pd. lia. Qed.

Lemma dz_nn : 0 <= dz.
Proof. unfold MortonDefs.dz. lia. Qed.

Lemma divmod_pos k s : 0 <= s < dz -> (k * dz + s) / dz = k /\ (k * dz + s) mod dz = s.
Proof.
  intros Hs. rewrite Z.add_comm. rewrite Z.div_add, Z.mod_add by lia.
  rewrite Z.div_small, Z.mod_small by lia. lia.
Qed.

Lemma bit_decomp n : (0 < d)%nat -> 0 <= n ->
  exists j m, (j < d)%nat /\ 0 <= m /\ n = m * dz + (dz - 1 - Z.of_nat j).
Proof.
  intros Hd Hn.
  assert (Hdz : 0 < dz) by (unfold MortonDefs.dz; lia).
  exists (d - 1 - Z.to_nat (n mod dz))%nat, (n / dz).
  pose proof (Z.mod_pos_bound n dz Hdz) as Hm.
  pose proof (Z.div_pos n dz Hn Hdz) as Hq.
  pose proof (Z.div_mod n dz ltac:(lia)) as Hdm.
  split; [lia|]. split; [lia|].
  replace (Z.of_nat (d - 1 - Z.to_nat (n mod dz))) with (dz - 1 - n mod dz)
    by (unfold MortonDefs.dz in *; lia).
  lia.
Qed.

(* ------------------------------------------------------------------ *)
(* unbox                                                               *)
(* ------------------------------------------------------------------ *)

Lemma unbox_round_cons2 x y rest idx mask :
  unbox_round (x :: y :: rest) idx mask =
  (Z.lor x (Z.land idx mask) :: fst (unbox_round (y :: rest) (Z.shiftr idx 1) mask),
   snd (unbox_round (y :: rest) (Z.shiftr idx 1) mask)).
Proof.
  change (unbox_round (x :: y :: rest) idx mask)
    with (let '(r, idx') := unbox_round (y :: rest) (Z.shiftr idx 1) mask in
          (Z.lor x (Z.land idx mask) :: r, idx')).
  destruct (unbox_round (y :: rest) (Z.shiftr idx 1) mask); reflexivity.
Qed.

Lemma unbox_round_spec : forall l idx mask,
  length (fst (unbox_round l idx mask)) = length l /\
  snd (unbox_round l idx mask) = Z.shiftr idx (Z.of_nat (pred (length l))) /\
  forall t, (t < length l)%nat ->
    nth t (fst (unbox_round l idx mask)) 0 =
    Z.lor (nth t l 0) (Z.land (Z.shiftr idx (Z.of_nat t)) mask).
Proof.
  induction l as [|x rest IH]; intros idx mask.
  - cbn [unbox_round fst snd length]. split; [reflexivity|]. split.
    + cbn [pred]. change (Z.of_nat 0) with 0. rewrite Z.shiftr_0_r. reflexivity.
    + intros t Ht. lia.
  - destruct rest as [|y rest'].
    + cbn [unbox_round fst snd length pred]. split; [reflexivity|]. split.
      * change (Z.of_nat 0) with 0. rewrite Z.shiftr_0_r. reflexivity.
      * intros t Ht. assert (t = 0%nat) by lia. subst t. cbn [nth].
        change (Z.of_nat 0) with 0. rewrite Z.shiftr_0_r. reflexivity.
    + rewrite unbox_round_cons2.
      destruct (IH (Z.shiftr idx 1) mask) as (IH1 & IH2 & IH3).
      cbn [fst snd]. split; [|split].
      * cbn [length] in *. rewrite IH1. reflexivity.
      * rewrite IH2. cbn [length pred]. rewrite Z.shiftr_shiftr by lia.
        f_equal. lia.
      * intros t Ht. destruct t as [|t'].
        -- cbn [nth]. change (Z.of_nat 0) with 0. rewrite Z.shiftr_0_r. reflexivity.
        -- cbn [nth]. rewrite IH3 by (cbn [length] in *; lia).
           rewrite Z.shiftr_shiftr by lia.
           replace (1 + Z.of_nat t') with (Z.of_nat (S t')) by lia. reflexivity.
Qed.

(* state after k rounds *)
Definition ubits (i k : Z) (l : list Z) : Prop :=
  length l = d /\
  forall t m, (t < d)%nat -> 0 <= m ->
    Z.testbit (nth t l 0) m = (m <? k) && Z.testbit i (m * dz + Z.of_nat t).

Lemma ubits_init i : ubits i 0 (repeat 0 d).
Proof.
  split; [apply repeat_length|].
  intros t m Ht Hm. rewrite nth_repeat, Z.testbit_0_l.
  destruct (Z.ltb_spec m 0); [lia|reflexivity].
Qed.

Lemma ubits_step i k l : 0 <= k -> ubits i k l ->
  ubits i (k + 1) (fst (unbox_round l (Z.shiftr i (k * pd)) (2 ^ k))) /\
  snd (unbox_round l (Z.shiftr i (k * pd)) (2 ^ k)) = Z.shiftr i ((k + 1) * pd).
Proof.
  intros Hk [Hlen Hb].
  destruct (unbox_round_spec l (Z.shiftr i (k * pd)) (2 ^ k)) as (S1 & S2 & S3).
  pose proof pd_nonneg as Hpd.
  split; [split|].
  - rewrite S1. exact Hlen.
  - intros t m Ht Hm. rewrite S3 by lia.
    rewrite Z.lor_spec, Z.land_spec, (Hb t m Ht Hm), Z.pow2_bits_eqb by lia.
    rewrite !Z.shiftr_spec by lia.
    pose proof (dz_pd ltac:(lia)) as Hdz.
    destruct (Z.ltb_spec m k) as [H1|H1]; destruct (Z.eqb_spec k m) as [H2|H2];
      destruct (Z.ltb_spec m (k + 1)) as [H3|H3]; try lia;
      rewrite ?andb_true_l, ?andb_false_l, ?andb_true_r, ?andb_false_r,
              ?orb_false_r, ?orb_false_l; try reflexivity.
    subst m. f_equal. rewrite Hdz. lia.
  - rewrite S2, Hlen. fold pd. rewrite Z.shiftr_shiftr by lia. f_equal. lia.
Qed.

Lemma shiftr_le i s : 0 <= i -> 0 <= s -> Z.shiftr i s <= i.
Proof.
  intros Hi Hs. rewrite Z.shiftr_div_pow2 by lia.
  assert (Hp : 0 < 2 ^ s) by (apply Z.pow_pos_nonneg; lia).
  apply Z.div_le_upper_bound; [lia|]. nia.
Qed.

Lemma unbox_loop_spec i : 0 < i -> forall fuel k l,
  0 <= k -> ubits i k l -> Z.log2 i + 1 <= k + Z.of_nat fuel ->
  exists K l', unbox_loop fuel (Z.shiftr i (k * pd)) (2 ^ k) l = Some l' /\
               0 <= K /\ ubits i K l' /\ Z.shiftr i (K * pd) < 2 ^ K.
Proof.
  intros Hi. pose proof pd_nonneg as Hpd.
  induction fuel as [|f IH]; intros k l Hk Hu Hf.
  - cbn [unbox_loop].
    destruct (Z.leb_spec (2 ^ k) (Z.shiftr i (k * pd))) as [Hle|Hgt].
    + exfalso. pose proof (shiftr_le i (k * pd) ltac:(lia) ltac:(nia)) as Hs.
      assert (Hl : k <= Z.log2 i) by (apply Z.log2_le_pow2; lia). lia.
    + exists k, l. auto.
  - cbn [unbox_loop].
    destruct (Z.leb_spec (2 ^ k) (Z.shiftr i (k * pd))) as [Hle|Hgt].
    + destruct (ubits_step i k l Hk Hu) as [U1 U2].
      destruct (unbox_round l (Z.shiftr i (k * pd)) (2 ^ k)) as [p idx'] eqn:ER.
      cbn [fst snd] in U1, U2. subst idx'.
      replace (Z.shiftl (2 ^ k) 1) with (2 ^ (k + 1)).
      * apply IH; [lia|exact U1|lia].
      * rewrite Z.shiftl_mul_pow2 by lia. rewrite Z.pow_add_r by lia. reflexivity.
    + exists k, l. auto.
Qed.

Lemma unbox_opt_pos i : 0 < i ->
  exists K l', unbox_opt d i = Some (rev l') /\
               0 <= K /\ ubits i K l' /\ Z.shiftr i (K * pd) < 2 ^ K.
Proof.
  intros Hi.
  destruct (unbox_loop_spec i Hi (unbox_fuel i) 0 (repeat 0 d) ltac:(lia) (ubits_init i))
    as (K & l' & HL & HK & HU & HS).
  - unfold unbox_fuel. pose proof (Z.log2_nonneg i). lia.
  - rewrite Z.mul_0_l, Z.shiftr_0_r, Z.pow_0_r in HL.
    exists K, l'. unfold unbox_opt. rewrite HL. cbn [option_map]. auto.
Qed.

Lemma unbox_opt_nonpos i : i <= 0 -> unbox_opt d i = Some (rev (repeat 0 d)).
Proof.
  intros Hi. unfold unbox_opt, unbox_fuel. cbn [unbox_loop].
  destruct (Z.leb_spec 1 i); [lia|reflexivity].
Qed.

Theorem unbox_total : forall i, unbox_opt d i <> None.
Proof.
  intros i. destruct (Z.lt_ge_cases 0 i) as [Hi|Hi].
  - destruct (unbox_opt_pos i Hi) as (K & l' & HL & _). rewrite HL. discriminate.
  - rewrite unbox_opt_nonpos by lia. discriminate.
Qed.

Lemma unbox_pos0 i : 0 < i ->
  exists K l', unbox d i = rev l' /\ 0 <= K /\ ubits i K l' /\ Z.shiftr i (K * pd) < 2 ^ K.
Proof.
  intros Hi. destruct (unbox_opt_pos i Hi) as (K & l' & HL & HK & HU & HS).
  exists K, l'. unfold unbox. rewrite HL. auto.
Qed.

Lemma unbox_pos i : (0 < d)%nat -> 0 < i ->
  exists K l', unbox d i = rev l' /\ 0 <= K /\ ubits i K l' /\ i < 2 ^ (K * dz).
Proof.
  intros Hd Hi. destruct (unbox_pos0 i Hi) as (K & l' & HL & HK & HU & HS).
  exists K, l'. split; [exact HL|]. split; [exact HK|]. split; [exact HU|].
  pose proof pd_nonneg as Hpd.
  rewrite (dz_pd Hd). rewrite Z.shiftr_div_pow2 in HS by nia.
  assert (Hp : 0 < 2 ^ (K * pd)) by (apply Z.pow_pos_nonneg; nia).
  replace (K * (pd + 1)) with (K * pd + K) by lia.
  rewrite Z.pow_add_r by nia.
  destruct (Z.lt_ge_cases i (2 ^ (K * pd) * 2 ^ K)) as [Hlt|Hge]; [exact Hlt|].
  exfalso. pose proof (Z.div_le_lower_bound i (2 ^ (K * pd)) (2 ^ K) Hp Hge). lia.
Qed.

Lemma unbox_nonpos i : i <= 0 -> unbox d i = rev (repeat 0 d).
Proof. intros Hi. unfold unbox. rewrite unbox_opt_nonpos by exact Hi. reflexivity. Qed.

Theorem unbox_length : forall i, length (unbox d i) = d.
Proof.
  intros i. destruct (Z.lt_ge_cases 0 i) as [Hi|Hi].
  - destruct (unbox_pos0 i Hi) as (K & l' & HL & _ & [Hlen _] & _).
    rewrite HL, rev_length. exact Hlen.
  - rewrite unbox_nonpos by lia. rewrite rev_length. apply repeat_length.
Qed.

Theorem unbox_nonneg : forall i, Forall (fun x => 0 <= x) (unbox d i).
Proof.
  intros i. apply Forall_forall. intros x Hx.
  destruct (Z.lt_ge_cases 0 i) as [Hi|Hi].
  - destruct (unbox_pos0 i Hi) as (K & l' & HL & HK & [Hlen Hb] & _).
    rewrite HL in Hx. apply in_rev in Hx.
    destruct (In_nth l' x 0 Hx) as (t & Ht & <-).
    apply (nonneg_of_bits _ K). intros m Hm.
    rewrite Hb by lia. destruct (Z.ltb_spec m K); [lia|reflexivity].
  - rewrite unbox_nonpos in Hx by lia. apply in_rev in Hx.
    apply repeat_spec in Hx. lia.
Qed.

Theorem unbox_bits : forall i j m, (j < d)%nat -> 0 <= i -> 0 <= m ->
  Z.testbit (nth j (unbox d i) 0) m = Z.testbit i (m * dz + (dz - 1 - Z.of_nat j)).
Proof.
  intros i j m Hj Hi Hm.
  destruct (Z.eq_dec i 0) as [->|Hne].
  - rewrite unbox_nonpos by lia.
    rewrite rev_nth by (rewrite repeat_length; exact Hj).
    rewrite nth_repeat, !Z.testbit_0_l. reflexivity.
  - destruct (unbox_pos i ltac:(lia) ltac:(lia)) as (K & l' & HL & HK & [Hlen Hb] & Hlt).
    rewrite HL, rev_nth by lia. rewrite Hlen.
    rewrite Hb by lia.
    replace (Z.of_nat (d - S j)) with (dz - 1 - Z.of_nat j) by (unfold MortonDefs.dz; lia).
    destruct (Z.ltb_spec m K) as [H1|H1]; [reflexivity|].
    rewrite andb_false_l. symmetry.
    pose proof dz_nn as Hdz.
    apply (proj1 (lt_pow2_bits i (K * dz) ltac:(lia) ltac:(nia)) Hlt).
    assert (K * dz <= m * dz) by nia. unfold MortonDefs.dz in *. lia.
Qed.

(* ------------------------------------------------------------------ *)
(* box                                                                 *)
(* ------------------------------------------------------------------ *)

Lemma nth_map_seq {A} (f : nat -> A) n t dflt : (t < n)%nat ->
  nth t (map f (seq 0 n)) dflt = f t.
Proof.
  intros Ht. rewrite nth_indep with (d' := f 0%nat) by (rewrite map_length, seq_length; lia).
  rewrite map_nth, seq_nth by lia. reflexivity.
Qed.

Lemma zseq_length : length (zseq dz) = d.
Proof.
  unfold zseq, zrange. rewrite map_length, seq_length. unfold MortonDefs.dz. lia.
Qed.

Lemma zseq_nth u : (u < d)%nat -> nth u (zseq dz) 0 = Z.of_nat u.
Proof.
  intros Hu. unfold zseq, zrange. rewrite nth_map_seq; [lia|].
  unfold MortonDefs.dz. lia.
Qed.

Lemma box_round_cons j m rest index mask c :
  box_round d ((j, m) :: rest) index mask c =
  let res := box_round d rest (Z.lor index (Z.land m mask)) (Z.shiftl mask 1)
               (c || (Z.shiftl (Z.shiftl mask 1) (dz - j - 1) <=? Z.shiftl m (dz - 1))) in
  ((j, Z.shiftl m (dz - 1)) :: fst (fst (fst res)), snd (fst (fst res)), snd (fst res), snd res).
Proof.
  cbn [box_round]. cbv zeta.
  destruct (box_round d rest (Z.lor index (Z.land m mask)) (Z.shiftl mask 1)
              (c || (Z.shiftl (Z.shiftl mask 1) (dz - j - 1) <=? Z.shiftl m (dz - 1))))
    as [[[r i2] m2] c2].
  reflexivity.
Qed.

Section Box.
Variable p : list Z.
Hypothesis Hlen : length p = d.
Hypothesis Hnn : Forall (fun x => 0 <= x) p.
Hypothesis Hd : (0 < d)%nat.

Definition pj (t : nat) : Z := nth (d - 1 - t) p 0.
Definition ent (k : Z) (t : nat) : Z * Z :=
  (Z.of_nat (d - 1 - t), Z.shiftl (pj t) (Z.of_nat t + k * pd)).
Definition cnd (k : Z) (t : nat) : bool :=
  Z.shiftl (2 ^ (k * dz + Z.of_nat t + 1)) (Z.of_nat t)
    <=? Z.shiftl (pj t) (Z.of_nat t + (k + 1) * pd).
Definition B (n : Z) : bool :=
  Z.testbit (nth (d - 1 - Z.to_nat (n mod dz)) p 0) (n / dz).
Definition ibits (N index : Z) : Prop :=
  forall n, 0 <= n -> Z.testbit index n = (n <? N) && B n.
Definition mcs (k : Z) : list (Z * Z) := map (ent k) (seq 0 d).
Definition below (K : Z) : Prop := forall t, (t < d)%nat -> pj t < 2 ^ K.

Lemma pj_nonneg t : 0 <= pj t.
Proof using Hlen Hnn Hd.
  unfold pj. destruct (nth_in_or_default (d - 1 - t) p 0) as [Hin | Hz]; [|rewrite Hz; lia].
  rewrite Forall_forall in Hnn. apply Hnn. exact Hin.
Qed.

Lemma ibits_step k s index : 0 <= k -> (s < d)%nat ->
  ibits (k * dz + Z.of_nat s) index ->
  ibits (k * dz + Z.of_nat (S s))
        (Z.lor index (Z.land (Z.shiftl (pj s) (Z.of_nat s + k * pd)) (2 ^ (k * dz + Z.of_nat s)))).
Proof using Hlen Hnn Hd.
  intros Hk Hs Hi n Hn.
  pose proof dz_nn as Hdz0. pose proof pd_nonneg as Hpd. pose proof (dz_pd Hd) as Hdz.
  assert (HN : 0 <= k * dz + Z.of_nat s) by nia.
  rewrite Z.lor_spec, Z.land_spec, (Hi n Hn), Z.pow2_bits_eqb by exact HN.
  destruct (Z.ltb_spec n (k * dz + Z.of_nat s)) as [H1|H1];
    destruct (Z.eqb_spec (k * dz + Z.of_nat s) n) as [H2|H2];
    destruct (Z.ltb_spec n (k * dz + Z.of_nat (S s))) as [H3|H3]; try lia;
    rewrite ?andb_true_l, ?andb_false_l, ?andb_true_r, ?andb_false_r,
            ?orb_false_r, ?orb_false_l; try reflexivity.
  subst n. rewrite Z.shiftl_spec by exact HN.
  unfold B. destruct (divmod_pos k (Z.of_nat s)) as [Q R]; [unfold MortonDefs.dz; lia|].
  rewrite Q, R, Nat2Z.id. unfold pj. f_equal. rewrite Hdz. lia.
Qed.

Lemma box_round_spec k : 0 <= k -> forall r s index c, (s + r = d)%nat ->
  ibits (k * dz + Z.of_nat s) index ->
  exists index',
    box_round d (map (ent k) (seq s r)) index (2 ^ (k * dz + Z.of_nat s)) c
    = (map (ent (k + 1)) (seq s r), index', 2 ^ ((k + 1) * dz),
       c || existsb (cnd k) (seq s r))
    /\ ibits ((k + 1) * dz) index'.
Proof using Hlen Hnn Hd.
  intros Hk. pose proof dz_nn as Hdz0. pose proof pd_nonneg as Hpd.
  pose proof (dz_pd Hd) as Hdz.
  induction r as [|r IH]; intros s index c Hs Hi.
  - cbn [seq map box_round existsb]. exists index. rewrite orb_false_r.
    assert (E : (k + 1) * dz = k * dz + Z.of_nat s) by (unfold MortonDefs.dz; lia).
    rewrite E. split; [reflexivity|exact Hi].
  - cbn [seq map]. unfold ent at 1. rewrite box_round_cons. cbv zeta.
    assert (HN : 0 <= k * dz + Z.of_nat s) by nia.
    assert (E1 : Z.shiftl (2 ^ (k * dz + Z.of_nat s)) 1 = 2 ^ (k * dz + Z.of_nat (S s))).
    { rewrite Z.shiftl_mul_pow2 by lia. rewrite <- Z.pow_add_r by lia. f_equal. lia. }
    assert (E3 : Z.shiftl (Z.shiftl (pj s) (Z.of_nat s + k * pd)) (dz - 1)
                 = Z.shiftl (pj s) (Z.of_nat s + (k + 1) * pd)).
    { rewrite Z.shiftl_shiftl by nia. f_equal. rewrite Hdz. lia. }
    rewrite E3, E1.
    assert (E2 : (Z.shiftl (2 ^ (k * dz + Z.of_nat (S s))) (dz - Z.of_nat (d - 1 - s) - 1)
                  <=? Z.shiftl (pj s) (Z.of_nat s + (k + 1) * pd)) = cnd k s).
    { unfold cnd.
      replace (dz - Z.of_nat (d - 1 - s) - 1) with (Z.of_nat s) by (unfold MortonDefs.dz; lia).
      replace (k * dz + Z.of_nat (S s)) with (k * dz + Z.of_nat s + 1) by lia.
      reflexivity. }
    rewrite E2.
    destruct (IH (S s) _ (c || cnd k s) ltac:(lia) (ibits_step k s index Hk ltac:(lia) Hi))
      as (index' & EQ & HI).
    rewrite EQ. cbn [fst snd]. exists index'. split; [|exact HI].
    cbn [existsb]. rewrite orb_assoc. reflexivity.
Qed.

Lemma pow_split a b : 0 <= a -> 0 <= b -> 2 ^ a * 2 ^ b = 2 ^ (a + b).
Proof. intros. rewrite Z.pow_add_r by lia. reflexivity. Qed.

Lemma cnd_false_bound k t : 0 <= k -> (t < d)%nat -> cnd k t = false -> pj t < 2 ^ (k + 1).
Proof using Hlen Hnn Hd.
  intros Hk Ht Hc. unfold cnd in Hc.
  pose proof dz_nn as Hdz0. pose proof pd_nonneg as Hpd. pose proof (dz_pd Hd) as Hdz.
  assert (Htz : Z.of_nat t + 1 <= dz) by (unfold MortonDefs.dz; lia).
  assert (HE : 0 <= Z.of_nat t + (k + 1) * pd) by nia.
  assert (HA : 0 <= k * dz + Z.of_nat t + 1) by nia.
  rewrite !Z.shiftl_mul_pow2 in Hc by lia.
  rewrite pow_split in Hc by lia.
  destruct (Z.leb_spec (2 ^ (k * dz + Z.of_nat t + 1 + Z.of_nat t))
                       (pj t * 2 ^ (Z.of_nat t + (k + 1) * pd))) as [|Hlt]; [discriminate|].
  destruct (Z.lt_ge_cases (pj t) (2 ^ (k + 1))) as [|Hge]; [assumption|]. exfalso.
  assert (H0 : 0 <= 2 ^ (Z.of_nat t + (k + 1) * pd)) by (apply Z.pow_nonneg; lia).
  pose proof (Z.mul_le_mono_nonneg_r _ _ _ H0 Hge) as Hm.
  rewrite pow_split in Hm by lia.
  assert (Hp : 2 ^ (k * dz + Z.of_nat t + 1 + Z.of_nat t)
               <= 2 ^ (k + 1 + (Z.of_nat t + (k + 1) * pd))).
  { apply Z.pow_le_mono_r; [lia|]. rewrite Hdz in *. lia. }
  lia.
Qed.

Lemma cnd_false_of_bound k t L : 0 <= k -> 0 <= L -> (t < d)%nat ->
  pj t < 2 ^ L -> L + dz - 2 <= k -> cnd k t = false.
Proof using Hlen Hnn Hd.
  intros Hk HL Ht Hb HkL. unfold cnd.
  pose proof dz_nn as Hdz0. pose proof pd_nonneg as Hpd. pose proof (dz_pd Hd) as Hdz.
  assert (HE : 0 <= Z.of_nat t + (k + 1) * pd) by nia.
  assert (HA : 0 <= k * dz + Z.of_nat t + 1) by nia.
  rewrite !Z.shiftl_mul_pow2 by lia.
  rewrite pow_split by lia.
  destruct (Z.leb_spec (2 ^ (k * dz + Z.of_nat t + 1 + Z.of_nat t))
                       (pj t * 2 ^ (Z.of_nat t + (k + 1) * pd))) as [Hle|]; [|reflexivity].
  exfalso.
  assert (H0 : 0 < 2 ^ (Z.of_nat t + (k + 1) * pd)) by (apply Z.pow_pos_nonneg; lia).
  pose proof (proj1 (Z.mul_lt_mono_pos_r _ _ _ H0) Hb) as Hm.
  rewrite pow_split in Hm by lia.
  assert (Hp : 2 ^ (L + (Z.of_nat t + (k + 1) * pd))
               <= 2 ^ (k * dz + Z.of_nat t + 1 + Z.of_nat t)).
  { apply Z.pow_le_mono_r; [lia|]. rewrite Hdz in *. lia. }
  lia.
Qed.

Lemma existsb_cnd_false k : 0 <= k -> existsb (cnd k) (seq 0 d) = false -> below (k + 1).
Proof using Hlen Hnn Hd.
  intros Hk He t Ht. apply cnd_false_bound; [exact Hk|exact Ht|].
  rewrite existsb_false in He. apply He. apply in_seq. lia.
Qed.

Lemma existsb_cnd_bound k L : 0 <= k -> 0 <= L -> below L -> L + dz - 2 <= k ->
  existsb (cnd k) (seq 0 d) = false.
Proof using Hlen Hnn Hd.
  intros Hk HL Hb HkL. apply existsb_false. intros t Ht. apply in_seq in Ht.
  apply (cnd_false_of_bound k t L); try assumption; [lia|apply Hb; lia].
Qed.

Lemma box_loop_spec L : 0 <= L -> below L -> forall fuel k index c,
  0 <= k -> ibits (k * dz) index ->
  (c = false -> below k) ->
  (L + dz - 1 <= k -> 1 <= k -> c = false) ->
  L + dz - 1 <= k + Z.of_nat fuel -> 1 <= k + Z.of_nat fuel ->
  exists K index', box_loop d fuel (mcs k) index (2 ^ (k * dz)) c = Some index' /\
                   0 <= K /\ ibits (K * dz) index' /\ below K.
Proof using Hlen Hnn Hd.
  intros HL HbL. induction fuel as [|f IH]; intros k index c Hk Hi Hc1 Hc2 Hf1 Hf2.
  - cbn [box_loop]. assert (Hc : c = false) by (apply Hc2; lia). subst c.
    exists k, index. repeat split; auto; lia.
  - cbn [box_loop]. destruct c.
    + assert (Hi0 : ibits (k * dz + Z.of_nat 0) index).
      { change (Z.of_nat 0) with 0. rewrite Z.add_0_r. exact Hi. }
      destruct (box_round_spec k Hk d 0%nat index false ltac:(lia) Hi0) as (index' & EQ & HI).
      change (Z.of_nat 0) with 0 in EQ. rewrite Z.add_0_r in EQ.
      unfold mcs. rewrite EQ. cbn [orb].
      apply IH; try lia; try exact HI.
      * apply existsb_cnd_false. exact Hk.
      * intros H1 _. apply (existsb_cnd_bound k L); try assumption. lia.
    + exists k, index. repeat split; auto; lia.
Qed.

Lemma box_init_eq : box_init d p = mcs 0.
Proof using Hlen Hnn Hd.
  unfold box_init, mcs.
  assert (HL : length (map2 (fun j x => (j, Z.shiftl x (dz - j - 1))) (zseq dz) p) = d).
  { rewrite map2_length; rewrite zseq_length; [reflexivity|lia]. }
  apply nth_ext with (d := (0, 0)) (d' := (0, 0)).
  - rewrite rev_length, HL, map_length, seq_length. reflexivity.
  - intros t Ht. rewrite rev_length, HL in Ht.
    rewrite rev_nth by lia. rewrite HL.
    rewrite (map2_nth _ 0 0) by (rewrite zseq_length; lia).
    rewrite zseq_nth by lia. rewrite nth_map_seq by lia.
    unfold ent, pj. replace (d - S t)%nat with (d - 1 - t)%nat by lia.
    f_equal. f_equal. unfold MortonDefs.dz. lia.
Qed.

Lemma init_cont_false : box_init_cont d (mcs 0) = false -> below 0.
Proof using Hlen Hnn Hd.
  unfold box_init_cont, mcs. rewrite existsb_map, existsb_false.
  intros H t Ht. specialize (H t ltac:(apply in_seq; lia)).
  unfold ent in H. cbn [fst snd] in H.
  replace (dz - Z.of_nat (d - 1 - t) - 1) with (Z.of_nat t) in H by (unfold MortonDefs.dz; lia).
  rewrite Z.mul_0_l, Z.add_0_r in H.
  rewrite !Z.shiftl_mul_pow2 in H by lia.
  assert (H0 : 0 < 2 ^ Z.of_nat t) by (apply Z.pow_pos_nonneg; lia).
  pose proof (pj_nonneg t).
  destruct (Z.leb_spec (1 * 2 ^ Z.of_nat t) (pj t * 2 ^ Z.of_nat t)); [discriminate|].
  change (2 ^ 0) with 1. nia.
Qed.

Lemma zmax_bound : 0 <= zmax_list p /\ below (Z.log2 (zmax_list p) + 1).
Proof using Hlen Hnn Hd.
  unfold zmax_list. destruct (fold_max_ge p 0) as [H1 H2]. split; [exact H1|].
  intros t Ht. unfold pj.
  assert (Hx : nth (d - 1 - t) p 0 <= fold_left Z.max p 0).
  { apply H2. apply nth_In. lia. }
  set (M := fold_left Z.max p 0) in *.
  destruct (Z.eq_dec M 0) as [E|E].
  - rewrite E. change (2 ^ (Z.log2 0 + 1)) with 2. lia.
  - pose proof (Z.log2_spec M ltac:(lia)) as Hs.
    replace (Z.succ (Z.log2 M)) with (Z.log2 M + 1) in Hs by lia. lia.
Qed.

Lemma ibits_0 : ibits (0 * dz) 0.
Proof.
  intros n Hn. rewrite Z.testbit_0_l. destruct (Z.ltb_spec n (0 * dz)); [lia|reflexivity].
Qed.

Lemma box_opt_spec :
  exists K index', box_opt d p = Some index' /\ 0 <= K /\ ibits (K * dz) index' /\ below K.
Proof using Hlen Hnn Hd.
  unfold box_opt. rewrite box_init_eq.
  destruct zmax_bound as [HM HbL].
  pose proof (Z.log2_nonneg (zmax_list p)) as Hlog.
  destruct (box_loop_spec (Z.log2 (zmax_list p) + 1) ltac:(lia) HbL (box_fuel d p) 0 0
              (box_init_cont d (mcs 0)) ltac:(lia) ibits_0 init_cont_false)
    as (K & index' & EQ & HK); try lia.
  - unfold box_fuel, MortonDefs.dz. lia.
  - unfold box_fuel. lia.
  - rewrite Z.mul_0_l in EQ. change (2 ^ 0) with 1 in EQ.
    exists K, index'. split; [exact EQ|exact HK].
Qed.

Lemma box_all_bits n : 0 <= n -> Z.testbit (box d p) n = B n.
Proof using Hlen Hnn Hd.
  intros Hn. destruct box_opt_spec as (K & index' & EQ & HK & HI & HB).
  unfold box. rewrite EQ. rewrite (HI n Hn).
  destruct (Z.ltb_spec n (K * dz)) as [H1|H1]; [reflexivity|].
  rewrite andb_false_l. symmetry. unfold B.
  assert (Hdz : 0 < dz) by (unfold MortonDefs.dz; lia).
  pose proof (Z.mod_pos_bound n dz Hdz) as Hm.
  assert (Hq : K <= n / dz) by (apply Z.div_le_lower_bound; lia).
  set (t := Z.to_nat (n mod dz)).
  assert (Ht : (t < d)%nat) by (unfold t, MortonDefs.dz in *; lia).
  pose proof (HB t Ht) as Hlt. pose proof (pj_nonneg t) as Hp. unfold pj in Hlt, Hp.
  apply (proj1 (lt_pow2_bits _ K Hp HK) Hlt). exact Hq.
Qed.

Lemma box_total_pos : box_opt d p <> None.
Proof using Hlen Hnn Hd.
  destruct box_opt_spec as (K & index' & EQ & _). rewrite EQ. discriminate.
Qed.

Lemma box_nonneg_pos : 0 <= box d p.
Proof using Hlen Hnn Hd.
  destruct box_opt_spec as (K & index' & EQ & HK & HI & HB).
  unfold box. rewrite EQ. apply (nonneg_of_bits _ (K * dz)).
  intros n Hn. pose proof dz_nn. rewrite HI by nia.
  destruct (Z.ltb_spec n (K * dz)); [lia|reflexivity].
Qed.

Lemma box_bits_pos j m : (j < d)%nat -> 0 <= m ->
  Z.testbit (box d p) (m * dz + (dz - 1 - Z.of_nat j)) = Z.testbit (nth j p 0) m.
Proof using Hlen Hnn Hd.
  intros Hj Hm. pose proof dz_nn.
  rewrite box_all_bits by (unfold MortonDefs.dz in *; nia).
  unfold B.
  destruct (divmod_pos m (dz - 1 - Z.of_nat j)) as [Q R]; [unfold MortonDefs.dz; lia|].
  rewrite Q, R. f_equal. f_equal. unfold MortonDefs.dz. lia.
Qed.

End Box.

(* ------------------------------------------------------------------ *)
(* Main theorems (dimension d >= 1 where needed)                       *)
(* ------------------------------------------------------------------ *)

Theorem box_bits : forall p j m, length p = d -> Forall (fun x => 0 <= x) p ->
  (j < d)%nat -> 0 <= m ->
  Z.testbit (box d p) (m * dz + (dz - 1 - Z.of_nat j)) = Z.testbit (nth j p 0) m.
Proof.
  intros p j m Hlen Hnn Hj Hm. apply box_bits_pos; try assumption. lia.
Qed.

Theorem box_unbox : forall i, (0 < d)%nat -> 0 <= i -> box d (unbox d i) = i.
Proof.
  intros i Hd Hi. apply Z.bits_inj'. intros n Hn.
  destruct (bit_decomp n Hd Hn) as (j & m & Hj & Hm & ->).
  rewrite box_bits by (try apply unbox_length; try apply unbox_nonneg; assumption).
  apply unbox_bits; assumption.
Qed.

Theorem unbox_box : forall p, (0 < d)%nat -> length p = d -> Forall (fun x => 0 <= x) p ->
  unbox d (box d p) = p.
Proof.
  intros p Hd Hlen Hnn.
  apply nth_ext with (d := 0) (d' := 0).
  - rewrite unbox_length. symmetry. exact Hlen.
  - intros j Hj. rewrite unbox_length in Hj.
    apply Z.bits_inj'. intros m Hm.
    rewrite unbox_bits; [|exact Hj|apply box_nonneg_pos; assumption|exact Hm].
    apply box_bits; assumption.
Qed.

Theorem box_range : forall p l, (0 < d)%nat -> 0 <= l -> length p = d ->
  Forall (fun x => 0 <= x) p ->
  (Forall (fun x => x < 2 ^ l) p <-> box d p < 2 ^ (l * dz)).
Proof.
  intros p l Hd Hl Hlen Hnn.
  pose proof dz_nn as Hdz0.
  assert (Hdz : 0 < dz) by (unfold MortonDefs.dz; lia).
  pose proof (box_nonneg_pos p Hlen Hnn Hd) as Hb0.
  assert (HN : 0 <= l * dz) by nia.
  split.
  - intros HF. apply (lt_pow2_bits _ _ Hb0 HN). intros n Hn.
    destruct (bit_decomp n Hd ltac:(lia)) as (j & m & Hj & Hm & ->).
    rewrite box_bits by assumption.
    assert (Hpj : 0 <= nth j p 0).
    { rewrite Forall_forall in Hnn. apply Hnn. apply nth_In. lia. }
    assert (Hlt : nth j p 0 < 2 ^ l).
    { rewrite Forall_forall in HF. apply HF. apply nth_In. lia. }
    apply (proj1 (lt_pow2_bits _ l Hpj Hl) Hlt).
    assert (Z.of_nat j < dz) by (unfold MortonDefs.dz; lia). nia.
  - intros Hlt. apply Forall_forall. intros x Hx.
    destruct (In_nth p x 0 Hx) as (j & Hj & <-).
    assert (Hpj : 0 <= nth j p 0).
    { rewrite Forall_forall in Hnn. apply Hnn. exact Hx. }
    apply (lt_pow2_bits _ l Hpj Hl). intros m Hm.
    rewrite <- box_bits by (try assumption; lia).
    apply (proj1 (lt_pow2_bits _ _ Hb0 HN) Hlt).
    assert (Z.of_nat j < dz) by (unfold MortonDefs.dz; lia). nia.
Qed.

Theorem parent_contains : forall i, (0 < d)%nat -> 0 <= i ->
  unbox d (parent d i) = map (fun x => x / 2) (unbox d i).
Proof.
  intros i Hd Hi. pose proof dz_nn as Hdz0.
  assert (Hp : 0 <= parent d i) by (unfold parent; apply Z.shiftr_nonneg; exact Hi).
  apply nth_ext with (d := 0) (d' := 0).
  - rewrite map_length, !unbox_length. reflexivity.
  - intros j Hj. rewrite unbox_length in Hj.
    rewrite (nth_map0 (fun x => x / 2)) by reflexivity.
    apply Z.bits_inj'. intros m Hm.
    assert (Hjz : Z.of_nat j < dz) by (unfold MortonDefs.dz; lia).
    rewrite unbox_bits by assumption.
    unfold parent. rewrite Z.shiftr_spec by nia.
    change (nth j (unbox d i) 0 / 2) with (nth j (unbox d i) 0 / 2 ^ 1).
    rewrite Z.div_pow2_bits by lia.
    rewrite unbox_bits by (try assumption; lia).
    f_equal. lia.
Qed.

Theorem child_code_octant : forall i, (0 < d)%nat -> 0 <= i ->
  unbox d (child_code d i) = map (fun x => x mod 2) (unbox d i).
Proof.
  intros i Hd Hi. pose proof dz_nn as Hdz0.
  assert (Hpw : 0 < 2 ^ dz) by (apply Z.pow_pos_nonneg; lia).
  assert (Hc : 0 <= child_code d i).
  { rewrite child_code_mod. apply Z.mod_pos_bound. exact Hpw. }
  apply nth_ext with (d := 0) (d' := 0).
  - rewrite map_length, !unbox_length. reflexivity.
  - intros j Hj. rewrite unbox_length in Hj.
    rewrite (nth_map0 (fun x => x mod 2)) by reflexivity.
    apply Z.bits_inj'. intros m Hm.
    assert (Hjz : Z.of_nat j < dz) by (unfold MortonDefs.dz; lia).
    rewrite unbox_bits by assumption.
    rewrite child_code_mod.
    change (nth j (unbox d i) 0 mod 2) with (nth j (unbox d i) 0 mod 2 ^ 1).
    destruct (Z.eq_dec m 0) as [->|Hm0].
    + rewrite !Z.mod_pow2_bits_low by lia.
      symmetry. apply unbox_bits; try assumption; lia.
    + rewrite !Z.mod_pow2_bits_high; [reflexivity|lia|nia].
Qed.

Theorem child_coords : forall p c, (0 < d)%nat -> 0 <= p -> 0 <= c < 2 ^ dz ->
  unbox d (child d p c) = map2 (fun x b => 2 * x + b) (unbox d p) (unbox d c).
Proof.
  intros p c Hd Hp Hc.
  destruct (child_parent d p c Hc) as [E1 E2].
  assert (Hch : 0 <= child d p c).
  { rewrite child_mul. pose proof (pow_dz_pos d). nia. }
  assert (H1 : unbox d p = map (fun x => x / 2) (unbox d (child d p c))).
  { rewrite <- parent_contains by assumption. rewrite E1. reflexivity. }
  assert (H2 : unbox d c = map (fun x => x mod 2) (unbox d (child d p c))).
  { rewrite <- child_code_octant by assumption. rewrite E2. reflexivity. }
  rewrite H1, H2. symmetry. apply map2_div_mod.
Qed.

End Bits.

Theorem box_total : forall d p, length p = d -> Forall (fun x => 0 <= x) p ->
  box_opt d p <> None.
Proof.
  intros d p Hlen Hnn. destruct d as [|d'].
  - destruct p; [|discriminate]. vm_compute. discriminate.
  - apply box_total_pos; try assumption. lia.
Qed.

Theorem box_nonneg : forall d p, length p = d -> Forall (fun x => 0 <= x) p ->
  0 <= box d p.
Proof.
  intros d p Hlen Hnn. destruct d as [|d'].
  - destruct p; [|discriminate]. vm_compute. discriminate.
  - apply box_nonneg_pos; try assumption. lia.
Qed.


Print Assumptions unbox_total.
Print Assumptions unbox_length.
Print Assumptions unbox_nonneg.
Print Assumptions unbox_bits.
Print Assumptions box_total.
Print Assumptions box_nonneg.
Print Assumptions box_bits.
Print Assumptions box_unbox.
Print Assumptions unbox_box.
Print Assumptions box_range.
Print Assumptions parent_contains.
Print Assumptions child_code_octant.
Print Assumptions child_coords.
