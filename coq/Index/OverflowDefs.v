(* Instrumented copy of the getIndexFromBoxPos loop (Index/MortonDefs.v, box_round/box_loop) that records every value the C++
   stores in a `long int` (mcoord[], mask, index) or computes as a shifted temporary (mask << (Dim-idxDim-1)), to state where
   signed 64-bit overflow / invalid shifts occur (property C15). *)
From Tbfmm Require Import Base.Prelude Index.MortonDefs.
Local Open Scope Z_scope.

Section Overflow.
Variable d : nat.
Notation dz := (dz d).

Fixpoint box_round_tr (mc : list (Z * Z)) (index mask : Z) (cont : bool) : list (Z * Z) * Z * Z * bool * list Z :=
  match mc with
  | [] => ([], index, mask, cont, [])
  | (j, m) :: rest =>
      let index1 := Z.lor index (Z.land m mask) in
      let mask1 := Z.shiftl mask 1 in
      let m1 := Z.shiftl m (dz - 1) in
      let probe := Z.shiftl mask1 (dz - j - 1) in
      let cont1 := cont || (probe <=? m1) in
      let '(r, index2, mask2, cont2, tr) := box_round_tr rest index1 mask1 cont1 in
      ((j, m1) :: r, index2, mask2, cont2, index1 :: mask1 :: m1 :: probe :: tr)
  end.

Fixpoint box_loop_tr (fuel : nat) (mc : list (Z * Z)) (index mask : Z) (cont : bool) : list Z :=
  if cont then
    match fuel with
    | O => []
    | S f =>
        let '(mc', index', mask', cont', tr) := box_round_tr mc index mask false in
        tr ++ box_loop_tr f mc' index' mask' cont'
    end
  else [].

(* every intermediate value of getIndexFromBoxPos(pos) *)
Definition box_trace (pos : list Z) : list Z :=
  let mc := box_init d pos in
  map snd mc ++ map (fun jm => Z.shiftl 1 (dz - fst jm - 1)) mc ++ box_loop_tr (box_fuel d pos) mc 0 1 (box_init_cont d mc).

(* all of them representable in a signed 64-bit long *)
Definition box_safe (pos : list Z) : bool := forallb (fun v => v <? 2 ^ 63) (box_trace pos).

(* the guard under which no intermediate overflows, for coordinates of level l *)
Definition box_guard (l : Z) : bool := (l + dz - 1) * dz + dz - 1 <=? 62.

End Overflow.
