(* Capacity of the interaction / neighbour lists: the C++ stack arrays sized by
   getNbInteractionsPerCell (6^d - 3^d) and getNbNeighborsPerLeaf (3^d - 1) are never over-filled,
   and in periodic mode the interaction list is always full.
   Route: ilist_exact / nlist_exact (Permutation preserves length), then a counting lemma on the
   d-fold product [cube lo hi] for predicates that are conjunctions per coordinate. *)
From Tbfmm Require Import Base.Prelude Index.MortonDefs Index.ListsDefs Index.ListsSpec
  Index.MortonProofs Index.MortonBits Index.ListsProofs.
From Coq Require Import ZifyBool Zify Permutation.
Local Open Scope Z_scope.

(* ------------------------------------------------------------------ *)
(* Generic counting lemmas                                             *)
(* ------------------------------------------------------------------ *)
Lemma len_flat_le {A B} (f : A -> list B) (g : A -> bool) L :
  (forall a, In a L -> (length (f a) <= if g a then 1 else 0)%nat) ->
  (length (flat_map f L) <= length (filter g L))%nat.
Proof.
  induction L as [|a L IH]; intros H; cbn [flat_map filter length]; [lia|].
  rewrite app_length.
  assert (Ha := H a (or_introl eq_refl)).
  assert (IH' : (length (flat_map f L) <= length (filter g L))%nat).
  { apply IH. intros x Hx. apply H. right; exact Hx. }
  destruct (g a); cbn [length]; lia.
Qed.

Lemma len_flat_eq {A B} (f : A -> list B) (g : A -> bool) L :
  (forall a, In a L -> length (f a) = if g a then 1%nat else 0%nat) ->
  length (flat_map f L) = length (filter g L).
Proof.
  induction L as [|a L IH]; intros H; cbn [flat_map filter length]; [reflexivity|].
  rewrite app_length.
  assert (Ha := H a (or_introl eq_refl)).
  assert (IH' : length (flat_map f L) = length (filter g L)).
  { apply IH. intros x Hx. apply H. right; exact Hx. }
  destruct (g a); cbn [length]; lia.
Qed.

Lemma filter_ext_in' {A} (f g : A -> bool) L :
  (forall a, In a L -> f a = g a) -> filter f L = filter g L.
Proof.
  induction L as [|a L IH]; intros H; cbn [filter]; [reflexivity|].
  rewrite (H a (or_introl eq_refl)). rewrite IH; [reflexivity|].
  intros x Hx. apply H. right; exact Hx.
Qed.

(* #(not f and g) + #(f and g) = #g *)
Lemma count_split {A} (f g : A -> bool) L :
  (length (filter (fun x => negb (f x) && g x) L) + length (filter (fun x => f x && g x) L)
   = length (filter g L))%nat.
Proof.
  induction L as [|a L IH]; cbn [filter length]; [reflexivity|].
  destruct (f a), (g a); cbn [negb andb length]; lia.
Qed.

(* conjunction per coordinate (truncating like map2) *)
Fixpoint fa2 (P : Z -> Z -> bool) (cs os : list Z) : bool :=
  match cs, os with
  | x :: cs', y :: os' => P x y && fa2 P cs' os'
  | _, _ => true
  end.

Lemma fa2_impl (P Q : Z -> Z -> bool) :
  (forall x y, P x y = true -> Q x y = true) ->
  forall cs os, fa2 P cs os = true -> fa2 Q cs os = true.
Proof.
  intros HPQ. induction cs as [|x cs IH]; intros [|y os] H; cbn [fa2] in *; try reflexivity.
  apply andb_true_iff in H. destruct H as [H1 H2].
  rewrite (HPQ _ _ H1), (IH _ H2). reflexivity.
Qed.

Lemma fa2_and_absorb (P Q : Z -> Z -> bool) cs os :
  (forall x y, P x y = true -> Q x y = true) ->
  fa2 P cs os && fa2 Q cs os = fa2 P cs os.
Proof.
  intros HPQ. destruct (fa2 P cs os) eqn:E; cbn [andb]; [|reflexivity].
  apply (fa2_impl P Q HPQ). exact E.
Qed.

Lemma forallb_fa2 (f : Z -> bool) : forall cs os, length cs = length os ->
  forallb f os = fa2 (fun _ y => f y) cs os.
Proof.
  induction cs as [|x cs IH]; intros [|y os] H; cbn [length] in H; try discriminate;
    cbn [forallb fa2]; [reflexivity|].
  rewrite (IH os) by lia. reflexivity.
Qed.

Lemma filter_cons_map (P : Z -> Z -> bool) c cs v (X : list (list Z)) :
  length (filter (fa2 P (c :: cs)) (map (cons v) X)) =
  if P c v then length (filter (fa2 P cs) X) else 0%nat.
Proof.
  induction X as [|w X IH]; cbn [map filter length fa2].
  - destruct (P c v); reflexivity.
  - cbn [fa2] in IH. destruct (P c v) eqn:E; cbn [andb].
    + destruct (fa2 P cs w); cbn [length]; rewrite IH; reflexivity.
    + exact IH.
Qed.

Lemma count_cons (P : Z -> Z -> bool) c cs lo hi lims :
  length (filter (fa2 P (c :: cs)) (odometer ((lo, hi) :: lims))) =
  (length (filter (P c) (zrange lo hi)) * length (filter (fa2 P cs) (odometer lims)))%nat.
Proof.
  cbn [odometer]. generalize (zrange lo hi) as R.
  induction R as [|v R IH]; cbn [flat_map filter length]; [reflexivity|].
  rewrite filter_app, app_length, IH, filter_cons_map.
  destruct (P c v); cbn [length]; lia.
Qed.

Lemma count_pow (P : Z -> Z -> bool) lo hi k :
  (forall c, length (filter (P c) (zrange lo hi)) = k) ->
  forall cs, length (filter (fa2 P cs) (odometer (repeat (lo, hi) (length cs)))) = (k ^ length cs)%nat.
Proof.
  intros Hk. induction cs as [|c cs IH]; cbn [length repeat].
  - reflexivity.
  - rewrite count_cons, Hk, IH. rewrite Nat.pow_succ_r'. reflexivity.
Qed.

Lemma count_pow_Z (P : Z -> Z -> bool) lo hi k d cs :
  (forall c, length (filter (P c) (zrange lo hi)) = k) -> length cs = d ->
  Z.of_nat (length (filter (fa2 P cs) (cube d lo hi))) = Z.of_nat k ^ dz d.
Proof.
  intros Hk Hlen. unfold cube, dz. rewrite <- Hlen.
  rewrite (count_pow P lo hi k Hk). apply Nat2Z.inj_pow.
Qed.

(* ------------------------------------------------------------------ *)
(* Per-coordinate predicates                                           *)
(* ------------------------------------------------------------------ *)
Definition adjP (x y : Z) : bool := Z.abs ((x + y) / 2 - x / 2) <=? 1.
Definition closeP (_ y : Z) : bool := Z.abs y <=? 1.
Definition zeroP (_ y : Z) : bool := 0 =? y.
Definition trueP (_ _ : Z) : bool := true.

Lemma adjP_mod x y : adjP x y = adjP (x mod 2) y.
Proof.
  unfold adjP.
  assert (E : (x + y) / 2 - x / 2 = (x mod 2 + y) / 2 - (x mod 2) / 2).
  { pose proof (Z.div_mod x 2 ltac:(lia)) as Hx.
    pose proof (Z.mod_pos_bound x 2 ltac:(lia)) as Hb.
    replace (x + y) with (x mod 2 + y + (x / 2) * 2) by lia.
    rewrite Z.div_add by lia.
    rewrite (Z.div_small (x mod 2) 2) by lia. lia. }
  rewrite E. reflexivity.
Qed.

Lemma adjP_count c : length (filter (adjP c) (zrange (-3) 3)) = 6%nat.
Proof.
  rewrite (filter_ext_in' (adjP c) (adjP (c mod 2))) by (intros a _; apply adjP_mod).
  pose proof (Z.mod_pos_bound c 2 ltac:(lia)) as Hb.
  assert (E : c mod 2 = 0 \/ c mod 2 = 1) by lia.
  destruct E as [-> | ->]; vm_compute; reflexivity.
Qed.

Lemma closeP_count c : length (filter (closeP c) (zrange (-3) 3)) = 3%nat.
Proof. vm_compute. reflexivity. Qed.

Lemma zeroP_count c : length (filter (zeroP c) (zrange (-1) 1)) = 1%nat.
Proof. vm_compute. reflexivity. Qed.

Lemma trueP_count c : length (filter (trueP c) (zrange (-1) 1)) = 3%nat.
Proof. vm_compute. reflexivity. Qed.

Lemma close_adj x y : closeP x y = true -> adjP x y = true.
Proof.
  unfold closeP, adjP. intros H.
  apply Z.leb_le in H. apply Z.leb_le.
  pose proof (Z.div_mod x 2 ltac:(lia)) as Hx.
  pose proof (Z.mod_pos_bound x 2 ltac:(lia)) as Hxb.
  pose proof (Z.div_mod (x + y) 2 ltac:(lia)) as Hxy.
  pose proof (Z.mod_pos_bound (x + y) 2 ltac:(lia)) as Hxyb.
  lia.
Qed.

Lemma pa_fa2 : forall c o, parents_adjacent c (map2 Z.add c o) = fa2 adjP c o.
Proof.
  unfold parents_adjacent.
  induction c as [|x c IH]; intros [|y o]; cbn [map2 map forallb fa2]; try reflexivity.
  rewrite IH. reflexivity.
Qed.

(* ------------------------------------------------------------------ *)
(* Counting the two specifications                                     *)
(* ------------------------------------------------------------------ *)
Lemma pow36 d : 3 ^ dz d <= 6 ^ dz d.
Proof. apply Z.pow_le_mono_l. lia. Qed.

Lemma ilist_count d (c : list Z) : length c = d ->
  Z.of_nat (length (filter (fun o => negb (too_close o) && parents_adjacent c (map2 Z.add c o))
                           (cube d (-3) 3))) = nb_interactions d.
Proof.
  intros Hlen.
  rewrite (filter_ext_in' _ (fun o => negb (fa2 closeP c o) && fa2 adjP c o)).
  2:{ intros o Ho. apply In_cube in Ho. destruct Ho as [Ho _].
      rewrite pa_fa2. unfold too_close.
      rewrite (forallb_fa2 (fun r => Z.abs r <=? 1) c o) by lia. reflexivity. }
  pose proof (count_split (fa2 closeP c) (fa2 adjP c) (cube d (-3) 3)) as Hs.
  rewrite (filter_ext_in' (fun x => fa2 closeP c x && fa2 adjP c x) (fa2 closeP c)) in Hs
    by (intros o _; apply fa2_and_absorb; exact close_adj).
  pose proof (count_pow_Z adjP (-3) 3 6%nat d c adjP_count Hlen) as H6.
  pose proof (count_pow_Z closeP (-3) 3 3%nat d c closeP_count Hlen) as H3.
  unfold nb_interactions. change (Z.of_nat 6) with 6 in H6. change (Z.of_nat 3) with 3 in H3.
  lia.
Qed.

Lemma fa2_trueP : forall c o, fa2 trueP c o = true.
Proof. induction c as [|x c IH]; intros [|y o]; cbn [fa2 trueP andb]; auto. Qed.

Lemma nlist_count d (c : list Z) : length c = d ->
  Z.of_nat (length (filter (fun o => negb (forallb (Z.eqb 0) o)) (cube d (-1) 1))) = nb_neighbors d.
Proof.
  intros Hlen.
  rewrite (filter_ext_in' _ (fun o => negb (fa2 zeroP c o) && fa2 trueP c o)).
  2:{ intros o Ho. apply In_cube in Ho. destruct Ho as [Ho _].
      rewrite fa2_trueP, andb_true_r.
      rewrite (forallb_fa2 (Z.eqb 0) c o) by lia. reflexivity. }
  pose proof (count_split (fa2 zeroP c) (fa2 trueP c) (cube d (-1) 1)) as Hs.
  rewrite (filter_ext_in' (fun x => fa2 zeroP c x && fa2 trueP c x) (fa2 zeroP c)) in Hs
    by (intros o _; rewrite fa2_trueP; apply andb_true_r).
  pose proof (count_pow_Z trueP (-1) 1 3%nat d c trueP_count Hlen) as H3.
  pose proof (count_pow_Z zeroP (-1) 1 1%nat d c zeroP_count Hlen) as H1.
  unfold nb_neighbors. change (Z.of_nat 3) with 3 in H3. change (Z.of_nat 1) with 1 in H1.
  rewrite Z.pow_1_l in H1 by (unfold dz; lia).
  lia.
Qed.

(* ------------------------------------------------------------------ *)
(* Lengths of the specification lists                                  *)
(* ------------------------------------------------------------------ *)
Lemma sbi_len_le d per l c o :
  (length (sbi d per l c o) <=
   if negb (too_close o) && parents_adjacent c (map2 Z.add c o) then 1 else 0)%nat.
Proof.
  unfold sbi. destruct (too_close o); cbn [negb andb length]; [lia|].
  destruct (parents_adjacent c (map2 Z.add c o)); cbn [negb length]; [|lia].
  destruct per; cbn [length]; [lia|].
  destruct (in_grid l (map2 Z.add c o)); cbn [length]; lia.
Qed.

Lemma sbi_len_eq d l c o :
  length (sbi d true l c o) =
  if negb (too_close o) && parents_adjacent c (map2 Z.add c o) then 1%nat else 0%nat.
Proof.
  unfold sbi. destruct (too_close o); cbn [negb andb length]; [reflexivity|].
  destruct (parents_adjacent c (map2 Z.add c o)); reflexivity.
Qed.

Lemma sbn_len_le d per l upper c o :
  (length (sbn d per l upper c o) <= if negb (forallb (Z.eqb 0) o) then 1 else 0)%nat.
Proof.
  unfold sbn. destruct (forallb (Z.eqb 0) o); cbn [negb length]; [lia|].
  destruct (upper && negb (lex_positive d o)); cbn [length]; [lia|].
  destruct per; cbn [length]; [lia|].
  destruct (in_grid l (map2 Z.add c o)); cbn [length]; lia.
Qed.

Lemma ilist_spec_sbi d per l idx : ilist_active per l = true ->
  ilist_spec d per l idx = flat_map (sbi d per l (unbox d idx)) (cube d (-3) 3).
Proof. intros Hact. unfold ilist_spec. rewrite Hact. reflexivity. Qed.

Lemma nlist_spec_sbn d per l upper idx :
  nlist_spec d per l upper idx = flat_map (sbn d per l upper (unbox d idx)) (cube d (-1) 1).
Proof. reflexivity. Qed.

(* ------------------------------------------------------------------ *)
(* Main theorems                                                       *)
(* ------------------------------------------------------------------ *)
Theorem ilist_cell_capacity : forall d per l idx, (0 < d)%nat -> 0 <= l -> 0 <= idx < 2 ^ (l * dz d) ->
  zlen (ilist_cell d per l idx) <= nb_interactions d.
Proof.
  intros d per l idx Hd Hl Hidx. unfold zlen.
  rewrite (Permutation_length (ilist_exact d per l idx Hd Hl Hidx)).
  destruct (ilist_active per l) eqn:Hact.
  - rewrite (ilist_spec_sbi d per l idx Hact).
    rewrite <- (ilist_count d (unbox d idx) (unbox_length d idx)).
    apply Nat2Z.inj_le. apply len_flat_le. intros o _. apply sbi_len_le.
  - unfold ilist_spec. rewrite Hact. cbn [negb length].
    unfold nb_interactions. pose proof (pow36 d). lia.
Qed.

Theorem nlist_cell_capacity : forall d per l upper idx, (0 < d)%nat -> 0 <= l -> 0 <= idx < 2 ^ (l * dz d) ->
  zlen (nlist_cell d per l upper idx) <= nb_neighbors d.
Proof.
  intros d per l upper idx Hd Hl Hidx. unfold zlen.
  rewrite (Permutation_length (nlist_exact d per l upper idx Hd Hl Hidx)).
  rewrite nlist_spec_sbn.
  rewrite <- (nlist_count d (unbox d idx) (unbox_length d idx)).
  apply Nat2Z.inj_le. apply len_flat_le. intros o _. apply sbn_len_le.
Qed.

(* in periodic mode the interaction list is always full (this is what the C++ asserts) *)
Theorem ilist_cell_full_periodic : forall d l idx, (0 < d)%nat -> 1 <= l -> 0 <= idx < 2 ^ (l * dz d) ->
  zlen (ilist_cell d true l idx) = nb_interactions d.
Proof.
  intros d l idx Hd Hl Hidx. unfold zlen.
  assert (Hl0 : 0 <= l) by lia.
  rewrite (Permutation_length (ilist_exact d true l idx Hd Hl0 Hidx)).
  assert (Hact : ilist_active true l = true) by (unfold ilist_active; lia).
  rewrite (ilist_spec_sbi d true l idx Hact).
  rewrite <- (ilist_count d (unbox d idx) (unbox_length d idx)).
  f_equal. apply len_flat_eq. intros o _. apply sbi_len_eq.
Qed.

Print Assumptions ilist_cell_capacity.
Print Assumptions nlist_cell_capacity.
Print Assumptions ilist_cell_full_periodic.
