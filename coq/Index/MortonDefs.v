(* Executable model of TbfMortonSpaceIndex (src/spacial/tbfmortonspaceindex.hpp):
   index <-> grid coordinates, parent/child, relative-position codes.
   Everything is generic in the dimension [d]; `long int` values are [Z].
   No proofs in this file. *)
From Tbfmm Require Import Base.Prelude.
Local Open Scope Z_scope.

Section Morton.
Variable d : nat.
Definition dz : Z := Z.of_nat d.

(* getParentIndex: inIndex >> Dim *)
Definition parent (i : Z) : Z := Z.shiftr i dz.
(* childPositionFromParent: inIndexChild & ~(((~0UL)>>Dim)<<Dim)  = low Dim bits *)
Definition child_code (i : Z) : Z := Z.land i (2 ^ dz - 1).
(* getChildIndexFromParent: (inParentIndex << Dim) + inChild *)
Definition child (p c : Z) : Z := Z.shiftl p dz + c.
(* getUpperBound *)
Definition upper_bound (l : Z) : Z := Z.shiftl 1 (l * dz).

(* ---- getBoxPosFromIndex (lines 80-101) ----
   [posrev] holds boxPos[Dim-1], ..., boxPos[0].
   One call of [unbox_round] = one iteration of the while body:
     for idxDim = Dim-1 .. 1 : boxPos[idxDim] |= idx & mask; idx >>= 1;
     boxPos[0] |= idx & mask;                                              *)
Fixpoint unbox_round (posrev : list Z) (idx mask : Z) : list Z * Z :=
  match posrev with
  | [] => ([], idx)
  | x :: rest =>
      match rest with
      | [] => ([Z.lor x (Z.land idx mask)], idx)
      | _ :: _ =>
          let '(r, idx') := unbox_round rest (Z.shiftr idx 1) mask in
          (Z.lor x (Z.land idx mask) :: r, idx')
      end
  end.

(* while (inMindex >= mask) { round; mask <<= 1; } *)
Fixpoint unbox_loop (fuel : nat) (idx mask : Z) (posrev : list Z) : option (list Z) :=
  if mask <=? idx then
    match fuel with
    | O => None
    | S f =>
        let '(p, idx') := unbox_round posrev idx mask in
        unbox_loop f idx' (Z.shiftl mask 1) p
    end
  else Some posrev.

Definition unbox_fuel (i : Z) : nat := S (S (Z.to_nat (Z.log2 i))).

Definition unbox_opt (i : Z) : option (list Z) :=
  option_map (@rev Z) (unbox_loop (unbox_fuel i) i 1 (repeat 0 d)).

(* total wrapper; the [None] branch is unreachable (MortonProofs.unbox_total) *)
Definition unbox (i : Z) : list Z :=
  match unbox_opt i with Some p => p | None => repeat 0 d end.

(* ---- getIndexFromBoxPos (lines 117-140) ----
   [mc] holds (idxDim, mcoord[idxDim]) for idxDim = Dim-1 .. 0.
   One call of [box_round] = one iteration of the while body. *)
Fixpoint box_round (mc : list (Z * Z)) (index mask : Z) (cont : bool)
  : list (Z * Z) * Z * Z * bool :=
  match mc with
  | [] => ([], index, mask, cont)
  | (j, m) :: rest =>
      let index1 := Z.lor index (Z.land m mask) in
      let mask1 := Z.shiftl mask 1 in
      let m1 := Z.shiftl m (dz - 1) in
      let cont1 := cont || (Z.shiftl mask1 (dz - j - 1) <=? m1) in
      let '(r, index2, mask2, cont2) := box_round rest index1 mask1 cont1 in
      ((j, m1) :: r, index2, mask2, cont2)
  end.

Fixpoint box_loop (fuel : nat) (mc : list (Z * Z)) (index mask : Z) (cont : bool) : option Z :=
  if cont then
    match fuel with
    | O => None
    | S f =>
        let '(mc', index', mask', cont') := box_round mc index mask false in
        box_loop f mc' index' mask' cont'
    end
  else Some index.

Definition box_init (pos : list Z) : list (Z * Z) :=
  rev (map2 (fun j p => (j, Z.shiftl p (dz - j - 1))) (zseq dz) pos).

Definition box_init_cont (mc : list (Z * Z)) : bool :=
  existsb (fun jm => Z.shiftl 1 (dz - fst jm - 1) <=? snd jm) mc.

Definition zmax_list (l : list Z) : Z := fold_left Z.max l 0.

Definition box_fuel (pos : list Z) : nat := S (S (Z.to_nat (Z.log2 (zmax_list pos)))) + d.

Definition box_opt (pos : list Z) : option Z :=
  let mc := box_init pos in
  box_loop (box_fuel pos) mc 0 1 (box_init_cont mc).

Definition box (pos : list Z) : Z :=
  match box_opt pos with Some i => i | None => 0 end.

(* ---- relative position codes (lines 688-724, and the inline encoders) ---- *)
(* arrayPos = 0; for idxDim: arrayPos *= b; arrayPos += rel[idxDim] + off *)
Definition enc_base (b off : Z) (rel : list Z) : Z :=
  fold_left (fun acc r => acc * b + (r + off)) rel 0.
Definition enc7 := enc_base 7 3.
Definition enc3 := enc_base 3 1.

(* for idxDim: pos[Dim-1-idxDim] = (code % b) - off; code /= b   (C++ % and / truncate) *)
Fixpoint dec_base_rev (n : nat) (b off code : Z) : list Z :=
  match n with
  | O => []
  | S k => (Z.rem code b - off) :: dec_base_rev k b off (Z.quot code b)
  end.
Definition dec_base (b off code : Z) : list Z := rev (dec_base_rev d b off code).
Definition dec7 := dec_base 7 3.
Definition dec3 := dec_base 3 1.

(* TbfUtils::lipow(3,Dim), getNbInteractionsPerCell, getNbNeighborsPerLeaf, getNbChildrenPerCell *)
Definition pow3d : Z := 3 ^ dz.
Definition nb_children : Z := 2 ^ dz.
Definition nb_interactions : Z := 6 ^ dz - 3 ^ dz.
Definition nb_neighbors : Z := 3 ^ dz - 1.

End Morton.
