(* Executable model of the interaction / neighbour list builders of
   TbfMortonSpaceIndex (lines 146-269, 272-413, 416-510, 513-627, 630-655).
   Enumeration order is the C++ order. *)
From Tbfmm Require Import Base.Prelude Base.Search Index.MortonDefs Tree.GroupDefs.
Local Open Scope Z_scope.

(* TbfXtoXInteraction *)
Record xinter := { x_tgt : Z; x_src : Z; x_tpos : Z; x_code : Z }.

Section Lists.
Variable d : nat.
Variable per : bool.      (* IsPeriodic *)

(* the odometer loops: all vectors of [lo_k, hi_k], last dimension fastest *)
Fixpoint odometer (lims : list (Z * Z)) : list (list Z) :=
  match lims with
  | [] => [[]]
  | (lo, hi) :: rest =>
      flat_map (fun v => map (cons v) (odometer rest)) (zrange lo hi)
  end.

(* minLimits / maxLimits *)
Definition lims_of (pos : list Z) (lim : Z) : list (Z * Z) :=
  if per then map (fun _ => (-1, 1)) pos
  else map (fun p => ((if p =? 0 then 0 else -1), (if p + 1 =? lim then 0 else 1))) pos.

(* periodic wrap of a parent coordinate: returns (wrapped, periodicShift) *)
Definition wrap_parent (limP lim : Z) (op : Z) : Z * Z :=
  if op <? 0 then (op + limP, - lim)
  else if limP <=? op then (op - limP, lim)
  else (op, 0).

Definition too_close (rel : list Z) : bool := forallb (fun r => Z.abs r <=? 1) rel.

Definition ilist_active (l : Z) : bool := if per then 1 <=? l else 2 <=? l.

(* the body shared by getInteractionListForIndex / ForBlock: all (source, code) of one cell *)
Definition ilist_cell (l : Z) (idx : Z) : list (Z * Z) :=
  if negb (ilist_active l) then [] else
  let lim := Z.shiftl 1 l in
  let limP := Z.shiftl 1 (l - 1) in
  let cpos := unbox d idx in
  let ppos := unbox d (parent d idx) in
  flat_map (fun delta =>
    let op0 := map2 Z.add ppos delta in
    let ws := if per then map (wrap_parent limP lim) op0 else map (fun p => (p, 0)) op0 in
    let opidx := box d (map fst ws) in
    let shift := map snd ws in
    flat_map (fun c =>
      let ch := child d opidx c in
      let rel := map2 Z.sub (map2 Z.add (unbox d ch) shift) cpos in
      if too_close rel then [] else [(ch, enc7 rel)])
      (zseq (Z.shiftl 1 (dz d))))
    (odometer (lims_of ppos limP)).

(* getNeighborListForIndex / ForBlock body *)
Definition nlist_cell (l : Z) (upper : bool) (idx : Z) : list (Z * Z) :=
  let lim := Z.shiftl 1 l in
  let cpos := unbox d idx in
  flat_map (fun delta =>
    if forallb (Z.eqb 0) delta then [] else
    let other0 := map2 Z.add cpos delta in
    let code := enc3 (map2 Z.sub other0 cpos) in
    let other := if per then map (fun o => Z.rem (o + lim) lim) other0 else other0 in
    let oidx := box d other in
    if negb upper || (Z.quot (pow3d d) 2 <? code) then [(oidx, code)] else [])
    (odometer (lims_of cpos lim)).

(* split into (internal, external) as the block builders do *)
Definition classify (first last : Z) (testSelf : bool) (find : Z -> option Z)
           (recs : list xinter) : list xinter * list xinter :=
  fold_right (fun r acc =>
    if (first <=? x_src r) && (x_src r <=? last) then
      if negb testSelf || (match find (x_src r) with Some _ => true | None => false end)
      then (r :: fst acc, snd acc) else acc
    else (fst acc, r :: snd acc)) ([], []) recs.

Definition records_of (cells : list Z) (f : Z -> list (Z * Z)) : list xinter :=
  flat_map (fun kc => map (fun sc => {| x_tgt := snd kc; x_src := fst sc; x_tpos := fst kc; x_code := snd sc |})
                          (f (snd kc)))
           (combine (zseq (zlen cells)) cells).

Definition ilist_block (l : Z) (testSelf : bool) (g : cgroup) : list xinter * list xinter :=
  if negb (ilist_active l) then ([], []) else
  classify (cg_first g) (cg_last g) testSelf (cg_find g)
           (records_of (cg_cells g) (ilist_cell l)).

Definition nlist_block (l : Z) (upper testSelf : bool) (g : pgroup) : list xinter * list xinter :=
  classify (pg_first g) (pg_last g) testSelf (pg_find g)
           (records_of (pg_indices g) (nlist_cell l upper)).

(* getSelfListForBlock *)
Definition self_block (g : pgroup) : list xinter :=
  let code := enc3 (repeat 0 d) in
  map (fun kc => {| x_tgt := snd kc; x_src := snd kc; x_tpos := fst kc; x_code := code |})
      (combine (zseq (zlen (pg_indices g))) (pg_indices g)).

End Lists.
